#!/bin/bash
# Builds the harness once (warms the Go build cache). Offline.
set -e
HERE="$(cd "$(dirname "$0")" && pwd)"
export GOFLAGS=-mod=mod GOPROXY=off
mkdir -p "$HERE/bin" "$HERE/build" "$HERE/evidence"
cd "$HERE/harness"
cp /repo/go.sum go.sum
go build -tags verif -o "$HERE/bin/check" ./cmd/check
echo "setup ok"
