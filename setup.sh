#!/bin/bash
# Builds the harness once (warms the Go build cache for all three build variants). Offline.
set -e
HERE="$(cd "$(dirname "$0")" && pwd)"
export GOFLAGS=-mod=mod GOPROXY=off
mkdir -p "$HERE/bin" "$HERE/build" "$HERE/evidence"
cd "$HERE/harness"
cp /repo/go.sum go.sum
go build -o "$HERE/bin/instrument" ./cmd/instrument
go build -tags verif -o "$HERE/bin/check" ./cmd/check
(cd /repo && "$HERE/bin/instrument" /repo "$HERE/build/pools" "$HERE/harness/vsched_src/vsched.go" --pools-only)
go build -tags "verif pools" -overlay "$HERE/build/pools/overlay.json" -o "$HERE/bin/check" ./cmd/check
(cd /repo && "$HERE/bin/instrument" /repo "$HERE/build/seq" "$HERE/harness/vsched_src/vsched.go")
go build -tags "verif pools" -overlay "$HERE/build/seq/overlay.json" -o "$HERE/bin/check" ./cmd/check
(cd /repo && "$HERE/bin/instrument" /repo "$HERE/build/sched" "$HERE/harness/vsched_src/vsched.go")
go build -tags "verif sched" -overlay "$HERE/build/sched/overlay.json" -o "$HERE/bin/check-sched" ./cmd/check
go build -race -tags "verif sched" -overlay "$HERE/build/sched/overlay.json" -o "$HERE/bin/check-race" ./cmd/check
echo "setup ok"
