#!/usr/bin/env python3
# Generates MANIFEST.json from the table below (kept in one place so it stays valid).
import json
CHECKS = {
 "C01": dict(cat="model_checking", tech="explicit-state BFS (closure / depth-bounded) over the real Array API vs a slice model",
   text="Bounded exhaustive exploration of the real Array implementation: every history inside a bounded universe (closure by canonical state key) and depth-bounded neighbourhoods of multi-level trajectory states; every return value, error, count, type and the root ID is compared with a plain slice model on every transition, and the array is reopened by its root ID after a commit.",
   note="Trusts the harness's slice model and state key (argued in DESIGN.md §4.3); values outside the size-class alphabet and slab sizes other than those listed are not covered.", ref="§5 C01"),
 "C02": dict(cat="model_checking", tech="explicit-state BFS (closure / depth-bounded) over the real OrderedMap API vs an insertion-ordered dictionary model",
   text="Bounded exhaustive exploration of the real OrderedMap: from every reachable state of a bounded key/value universe (closure) and of grow/drain trajectories with controlled digests (depth-bounded), every Set/Get/Has/Remove/PopIterate/SetType on present and absent keys is executed and every return value, removed pair, count and error type is compared with a dictionary model; reopen by root ID after commit.",
   note="Trusts the dictionary model and the canonical state key; keys come from a finite universe; real hashing in the closure spaces, caller-supplied digests on trajectories.", ref="§5 C02"),
 "C05": dict(cat="model_checking", tech="explicit-state BFS + independent structural oracle after every transition; exhaustive sweep over slab sizes",
   text="Every state of the array/map/nested spaces (edge-biased sizes) and trajectory neighbourhoods is checked by the library's verifiers and by an independent traversal (size band, per-element limits, index root >= 2 children, header copies, sibling links, digest order), in memory and on slabs decoded from committed registers; all legal slab sizes are swept with the arithmetic obligations and a canned script.",
   note="Band endpoints are the library's integer thresholds floor(T/2), floor(1.5T); quick tier sweeps all sizes <=2048 and every 7th above, thorough all 32513.", ref="§5 C05"),
 "C06": dict(cat="model_checking", tech="explicit-state BFS; per-register size accounting oracle with an independent CBOR item skipper",
   text="After every transition of the spaces (all element kinds: scalar widths, strings, wrappers, inlined arrays/maps, compact maps, references) the state is committed and every register's byte length minus the two extra-data sections is compared with the reported size (only the two documented savings allowed), and decoded vs in-memory reported sizes must agree.",
   note="Extra-data section lengths are measured by the harness's own CBOR skipper; compact-map saving is accepted as <= only.", ref="§5 C06"),
 "C07": dict(cat="model_checking", tech="explicit-state BFS; decode/re-encode identity + content + header-flag oracle on every register produced",
   text="Every register produced by a commit after every transition of the spaces is decoded and re-encoded (byte identity), the decoded slab is compared field-by-field and element-by-element with the in-memory slab (compact maps excepted), and root/has-pointers/size-limit flags are compared with the harness's own reading of the content.",
   note="Pointer flag of index slabs is not asserted (the property speaks of elements).", ref="§5 C07"),
 "C10": dict(cat="model_checking", tech="explicit-state BFS to closure over a nested-container universe driven through live handles, with commit/reopen/cache-drop events",
   text="Closure over a root array/map with nested arrays/maps (plain, wrapped, up to 3 levels): every child mutator through handles obtained on insertion, by lookup and by mutable iteration, interleaved with parent restructuring and commit/reopen/drop-cache events; after every transition the content read through the root equals the nested model, the in-repo verifiers accept the root, inlined <=> single slab fitting the parent's limit (computed independently), value IDs are stable and commit+reopen reproduces the model.",
   note="One live handle per attached container, enforced transitively (replacing a handle abandons handles of its descendants); two simultaneously used handles of the same container are outside the claim (DESIGN §9).", ref="§5 C10"),
 "C11": dict(cat="model_checking", tech="explicit-state BFS to closure over the nested universe with detach/overwrite/re-attach/dispose and stale handles",
   text="Closure over the nested universe extended with detach-by-remove, detach-by-overwrite, re-attach elsewhere and dispose; handles obtained before detachment are used afterwards while the former parent keeps changing; after every transition the former parent equals its model (content, verifier, persisted form after commit+reopen), the detached child is a standalone value with unchanged value ID reloadable by slab ID, and storage IDs == reachable IDs with detached containers counted as roots.",
   note="Children detached by PopIterate of their parent are destroyed by contract and not reused; a container is never attached twice.", ref="§5 C11"),
 "C03": dict(cat="model_checking", tech="explicit-state BFS with commits as alphabet operations; crash-recovery oracle at every visited state",
   text="Every history over a persistent array + map (+ nested children + a temporary-address container) with every placement of the three commit kinds; every visited state is a crash point: no ledger mutation outside a commit, ledger byte-identical to the snapshot at the last commit, and a brand-new storage over a copy of the ledger reconstructs every container with the model content at commit time (verifiers, reachability); no register under the zero address. Also depth-bounded around multi-level trajectory states.",
   note="Crash points lie between operations and right before/after commits; slab-index allocation is not treated as a register write.", ref="§5 C03"),
 "C08": dict(cat="model_checking", tech="explicit-state BFS with commit / drop-cache / reopen events as alphabet operations; differential (event-free twin) oracle",
   text="Every placement of {commit, commit+drop cache, commit+reopen} between operations (events are alphabet operations of the BFS); on every visited state the per-operation results equal those of the same history replayed without events, content equals the model, and final registers are byte-identical to the event-free twin unless the history ever used the compact-map encoding (then content-equal).",
   note="Handles are re-obtained after reopen (all) and after cache drop (children); histories that ever committed a compact-map register are exempt from byte identity as the property states.", ref="§5 C08"),
 "C15": dict(cat="model_checking", tech="explicit-state BFS to closure of the storage state machine on the real PersistentSlabStorage vs a three-map model",
   text="Closure of the write-set / cache / ledger state machine over 3 (quick) or 4 (thorough) identifiers under two owners and the temporary address with two versions, plus a 12-identifier universe for the parallel preload path: all API transitions incl. both commits with every failing-mutation position, drops, every preload subset and storage re-creation; after every transition the three layers and every observer agree with the model.",
   note="State = the model triple (ledger, write set, cache); the real layers are read through the verif hook and compared after every transition.", ref="§5 C15"),
 "C12": dict(cat="model_checking", tech="exhaustive enumeration of digest assignments up to order-isomorphism x explicit-state BFS to closure per assignment and collision limit",
   text="All 121 (quick, 3 keys) / 2169 (thorough, 4 keys) order-isomorphism classes of 4-level digest assignments through a caller-supplied digester; for each, closure of the map over Set(small|big)/Remove/Get/Has/PopIterate with collision limits 255, 0, 1, 2: dictionary semantics, VerifyMap + independent structure checks, canonical iteration order, and the refusal rule (refused iff first-level digest already shared by more than the limit of entries with distinct second-level digests; a refusal leaves the canonical state unchanged; updates never refused).",
   note="Keys beyond 4 and digest patterns that need more keys to be observable are outside the bound.", ref="§5 C12"),
 "C13": dict(cat="model_checking", tech="explicit-state BFS with enumeration oracles in every state and mutation-during-iteration as alphabet operations; exhaustive loaded-slab subsets",
   text="In every state of array/map/collision closures and trajectory neighbourhoods: every enumeration flavour (read-only, mutable, callback forms, keys/values only, NextKey/NextValue, all ranges incl. invalid classes, loaded-values for every subset of loaded non-root slabs) equals the model's canonical sequence and agrees with lookups; overwriting the current element / growing a nested child at every cursor position during mutable iteration never skips or repeats; map bulk pop yields the reverse canonical order; children from read-only iterators refuse mutation.",
   note="Loaded-subset enumeration is exhaustive up to 6 non-root slabs per tree (singletons and co-singletons above).", ref="§5 C13"),
 "C17": dict(cat="model_checking", tech="exhaustive enumeration of bulk-API inputs (all streams up to a length, all tail patterns per length, all small copy sources, all byte lengths) on the real implementation with the full oracle set",
   text="All element streams over 4 size classes up to length 8 (10 thorough) and every length up to 120 (600) with all tail patterns through NewArrayFromBatchData; NewMapFromBatchData from every source size and every 3-key digest assignment plus negative streams; CopyNonRefSimple offered <=> single slab of plain elements over all <=3-element sources (7 element kinds, standalone/inlined) with byte-identical registers of the untouched side after every single mutation of the other; ByteSliceToByteArray for every length and estimated-size argument with round trip; each result checked by content, verifiers, structure/size/round-trip/reachability oracles and the health check.",
   note="Stream lengths beyond the bounds are not enumerated; the tail family covers the under-full last leaf / last index slab logic.", ref="§5 C17"),
 "C18": dict(cat="model_checking", tech="explicit-state BFS with every invalid request class as alphabet operations; no-trace oracle on the canonical state text; exhaustive callback-failure injection per lookup",
   text="In every state of array/map/collision/nested closures and trajectory neighbourhoods every invalid request (out-of-range indexes incl. 2^32 and 2^64-1, absent keys at every digest position, inserts over the collision limit, through nested handles, undefined/absent identifiers) must return the documented error type and category and leave content, structure, write set and slab population unchanged; a failure injected into the i-th comparator / hash-input / ledger-read call of every lookup, for every i, must surface as an external error.",
   note="'No trace' ignores the read cache and handle-private tables (not part of the container, ancestors or write set).", ref="§5 C18"),
 "C20": dict(cat="model_checking", tech="explicit-state BFS over healthy storages x exhaustive single-slab corruption enumeration (fault enumeration per state)",
   text="For every state of the explored spaces (two roots, large values, standalone/inlined children, external collision groups, multi-level trees), fully loaded on persistent and basic storages: health check succeeds with exactly the live roots; every referenced slab deleted in four ways, an unreferenced slab added, a second reference to every referenced slab from every same-owner root, and a foreign-owner child each make it fail; GetAllChildReferences equals the independent (resolvable, broken) partition for every slab, healthy and after each deletion.",
   note="Corruptions are single-slab and built through public APIs.", ref="§5 C20"),
 "C14": dict(cat="fault_enumeration", tech="exhaustive enumeration of failing-ledger-mutation sets (size <= k, across retries) per history x commit kind x worker count on the real commit code",
   text="For every prefix of a corpus of histories with pending stores/deletions under three owners and the temporary address, both commits, 1-3 workers: every set of up to k failing ledger mutations (k=2 quick, 3 thorough; positions counted across retries) is injected; after each failed attempt an external error is returned, unwritten changes are still pending (same slab objects), Retrieve of every identifier and deep reads return the latest values, no slab is written twice with different bytes; retry until success converges to the byte-identical fault-free ledger.",
   note="With >1 workers the order-relaxed commit's store order comes from real scheduling here; the oracle is schedule-independent. Schedule enumeration is C16's subject.", ref="§5 C14"),
 "C19": dict(cat="exploration", tech="bounded-exhaustive input enumeration: all short byte strings + complete one-edit neighbourhood (truncations, all single-byte substitutions, item deletions/duplications, splices) of a generated corpus of v1 and v0 registers",
   text="All byte strings of length <= 3, all 4-byte strings with a dispatching head, and for every register of a corpus generated by the other drivers (every slab kind, inlined/compact/collision shapes, large values, plus accepted version-0 re-encodings): every truncation, every single-byte substitution, CBOR item deletion/duplication and item-boundary splices; oracle: no panic, returns within a 20 s watchdog, allocation per input bounded linearly in input length (batch-measured with drill-down), accessors of decoded slabs and the header queries panic-free; workers run under ulimit -v so a fatal out-of-memory is caught as a violation.",
   note="The property quantifies over all byte strings; only the stated neighbourhood is decided (exploration level, not a proof).", ref="§5 C19"),
 "C04": dict(cat="model_checking", tech="stateless schedule exploration (iterative context bounding) of the real, on-the-fly instrumented commit code with goroutine interleavings AND Go map iteration orders as controlled choice points",
   text="For a corpus of histories, worker counts 1-4, both commits: every interleaving of the encoder workers up to the preemption bound x every map iteration order up to the deviation bound (each `range` over a map in package atree is rewritten to iterate an explorer-chosen permutation) must leave registers byte-identical to the canonical one-goroutine execution, the deterministic commit's ledger calls in the canonical ascending (owner,index) sequence, the relaxed commit's calls a permutation of it; the arrays' index-shifting loops under all permutations; re-runs in fresh processes with cold and warmed pools give identical digests.",
   note="Bounds: <=2 preemptions and <=2 non-canonical map orders (quick), 3/3 (thorough), each scenario under a time budget; the bound every scenario completed is in the evidence. The instrumenter refuses (exit 2) sources with concurrency constructs it does not know.", ref="§5 C04, App. A"),
 "C16": dict(cat="model_checking", tech="stateless schedule exploration (iterative context bounding) of the real instrumented commit/preload code and of independent clients over shared pools under a cooperative scheduler; free-running -race pass as complement",
   text="All schedules up to the preemption bound of FastCommit / NondeterministicFastCommit (1-3 workers, corpus of pending write sets, one encode-failure scenario), BatchPreload (12+ registers, 2-3 workers, one undecodable register) and of 2-3 independent clients whose operations collide on the process-wide digester/buffer/type-id pools (deterministic LIFO pool with poison check, scheduling points before and after Get/Put): no deadlock, panic or poison; registers, ledger log, cache, write set and error equal the one-goroutine execution; every client equals its solo run. The same bodies run free under the Go race detector (any report is a violation).",
   note="Engine self-checks (a lost-update toy and a use-after-Put toy must be found within bound 1) run before every exploration. Memory-model effects below the synchronisation primitives are outside the model.", ref="§5 C16, App. A"),
 "C09": dict(cat="model_checking", tech="explicit-state BFS; independent reachability oracle (storage IDs == reachable IDs) before and after commit",
   text="With the harness disposing of every value handed back, after every transition (and again after commit) the slab IDs held by write set + ledger must equal the IDs reachable from live roots by an independent traversal, each referenced once, one owner per tree; alphabets are biased to auxiliary slabs (externalised values/keys, inline<->standalone children, bulk pops).",
   note="CheckStorageHealth is used only as a second opinion (C20 decides its trustworthiness).", ref="§5 C09"),
}
# additions made after the table was first written (appended to the texts above)
EXTRA = {
 "C01": " Also: arrays that are elements of an array operated on through their handles, and histories with commit / reopen events inside (differential against the event-free history).",
 "C02": " Also: maps that are values of a map operated on through their handles, and histories with commit / reopen events inside (differential against the event-free history).",
 "C03": " Collision universes (every 5th digest assignment), element-kind and externalised-key universes with commits in the alphabet are included.",
 "C04": " In addition every pending write set found by an explicit-state search of a bounded universe (depth 3 quick / 4 thorough) is committed under every map iteration order deviation.",
 "C05": " The spaces include children of every kind (inlined, standalone, wrapped, composite maps of two types) in every slab of multi-level parents, children holding externalised values, and containers produced by the bulk constructors (with nested children).",
 "C06": " The spaces include children of every kind in every slab of multi-level parents and containers produced by the bulk constructors.",
 "C07": " The spaces include composite (compact-encoded) children in containers that span several slabs and children of every kind in every slab of multi-level parents.",
 "C08": " Collision universes (every 2nd digest assignment), element-kind and externalised-key universes, and nested children that change type or overwrite with oversized values are included.",
 "C10": " Dynamic value classes put children exactly on and one byte over the limit their parent grants them (all parent/child kind combinations, wrapped children); children holding values too large to inline are included.",
 "C12": " Histories with commit / reopen events inside (collision groups operated on after being committed or decoded) for every assignment, depth-bounded, differential against the event-free history.",
 "C14": " The same enumeration also runs as a state oracle at every transition of explicit-state searches (mixed universe, splitting maps, cold multi-level trajectories) whose alphabets contain commits, i.e. over every pending write set reachable inside those universes.",
 "C16": " In addition both commits run under all schedules (one preemption quick / two thorough) over every pending write set found by an explicit-state search of a bounded universe.",
 "C18": " Rejected requests whose value is a container (a detached child offered at an invalid position) are included, with histories continuing through both containers.",
 "C19": " Plus every well-formed element insertion/deletion (counts adjusted) and, for the short registers, the pair neighbourhood: every such structural edit combined with every +-1/+-2/single-bit change of every byte.",
 "C20": " The storage that ran the history (with FastCommit(1), FastCommit(3) and NondeterministicFastCommit(2) in the alphabet) is judged as well as a fresh one.",
}
NA = {}
import sys
props=[json.loads(l)["id"] for l in open("/verif/properties.jsonl")]
m = {
 "version": 1,
 "setup_cmd": "./setup.sh",
 "hooks": {
   "guard": "verif",
   "enable": "go build -tags verif (harness module /verif/harness with replace github.com/onflow/atree => /repo); schedule-controlled builds additionally use a generated -overlay (nothing committed to /repo)",
   "baseline_off_cmd": "cd /repo && go test -mod=mod -json -vet=off -count=1 -timeout 25m ./...",
   "source_commits": ["887b823"],
   "add_only": True,
 },
 "engines": [
   {"name":"vf","path":"harness/vf","serves_properties":sorted(CHECKS.keys()),"kind_free_text":"hand-written explicit-state / stateless explorer driving the real atree API (Go); worker processes, canonical state keys, replay files"},
   {"name":"vsched+instrument","path":"harness/vsched_src, harness/cmd/instrument","serves_properties":["C04","C16"],"kind_free_text":"cooperative scheduler + go/ast+go/types source rewriter applied through go build -overlay (goroutines, channels, select, WaitGroup, sync.Pool, map range become controlled choice points); deviation-bounded DFS over choice sequences"},
 ],
 "checks": [],
 "not_applicable": [],
 "notes": "All checks: ./run.sh <id> quick|thorough rebuilds the harness against /repo's working tree (build tag verif) and runs bin/check. Violations are replayed 5x before being reported; replay: ./run.sh <id> --replay <file>.",
}
for pid in props:
    if pid in CHECKS:
        c=CHECKS[pid]
        m["checks"].append({
          "property_id": pid,
          "quick_cmd": f"./run.sh {pid} quick",
          "thorough_cmd": f"./run.sh {pid} thorough",
          "evidence_file": f"/verif/evidence/{pid}.json",
          "replay_cmd_template": f"./run.sh {pid} --replay {{path}}",
          "engine": "vf",
          "level_claimed": {"category": c["cat"], "text": c["text"] + EXTRA.get(pid, ""), "design_ref": c["ref"]},
          "level_note": c["note"],
          "technique": c["tech"],
        })
    else:
        m["not_applicable"].append({"property_id": pid, "reason": NA.get(pid, "check not built yet in this round (planned, see DESIGN.md §5); not claimed until it runs")})
json.dump(m, open("/verif/MANIFEST.json","w"), indent=1)
print("checks:", len(m["checks"]), "n/a:", len(m["not_applicable"]))
