#!/usr/bin/env python3
# Generates MANIFEST.json from the table below (kept in one place so it stays valid).
import json
CHECKS = {
 "C01": dict(cat="model_checking", tech="explicit-state BFS (closure / depth-bounded) over the real Array API vs a slice model",
   text="Bounded exhaustive exploration of the real Array implementation: every history inside a bounded universe (closure by canonical state key) and depth-bounded neighbourhoods of multi-level trajectory states; every return value, error, count, type and the root ID is compared with a plain slice model on every transition, and the array is reopened by its root ID after a commit.",
   note="Trusts the harness's slice model and state key (argued in DESIGN.md §4.3); values outside the size-class alphabet and slab sizes other than those listed are not covered.", ref="§5 C01"),
}
NA = {}
import sys
props=[json.loads(l)["id"] for l in open("/verif/properties.jsonl")]
m = {
 "version": 1,
 "setup_cmd": "./setup.sh",
 "hooks": {
   "guard": "verif",
   "enable": "go build -tags verif (harness module /verif/harness with replace github.com/onflow/atree => /repo); schedule-controlled builds additionally use a generated -overlay (nothing committed to /repo)",
   "baseline_off_cmd": "cd /repo && go test -mod=mod -json -vet=off -count=1 -timeout 25m ./...",
   "source_commits": ["887b823"],
   "add_only": True,
 },
 "engines": [
   {"name":"vf","path":"harness/vf","serves_properties":sorted(CHECKS.keys()),"kind_free_text":"hand-written explicit-state / stateless explorer driving the real atree API (Go); worker processes, canonical state keys, replay files"},
 ],
 "checks": [],
 "not_applicable": [],
 "notes": "All checks: ./run.sh <id> quick|thorough rebuilds the harness against /repo's working tree (build tag verif) and runs bin/check. Violations are replayed 5x before being reported; replay: ./run.sh <id> --replay <file>.",
}
for pid in props:
    if pid in CHECKS:
        c=CHECKS[pid]
        m["checks"].append({
          "property_id": pid,
          "quick_cmd": f"./run.sh {pid} quick",
          "thorough_cmd": f"./run.sh {pid} thorough",
          "evidence_file": f"/verif/evidence/{pid}.json",
          "replay_cmd_template": f"./run.sh {pid} --replay {{path}}",
          "engine": "vf",
          "level_claimed": {"category": c["cat"], "text": c["text"], "design_ref": c["ref"]},
          "level_note": c["note"],
          "technique": c["tech"],
        })
    else:
        m["not_applicable"].append({"property_id": pid, "reason": NA.get(pid, "check not built yet in this round (planned, see DESIGN.md §5); not claimed until it runs")})
json.dump(m, open("/verif/MANIFEST.json","w"), indent=1)
print("checks:", len(m["checks"]), "n/a:", len(m["not_applicable"]))
