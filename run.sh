#!/bin/bash
# run.sh <Cxx> [quick|thorough] [--replay file]  — rebuilds the harness from /repo's current tree, then runs the check.
set -u
HERE="$(cd "$(dirname "$0")" && pwd)"
export GOFLAGS=-mod=mod GOPROXY=off
export VERIF_DIR="$HERE"
mkdir -p "$HERE/bin" "$HERE/build" "$HERE/evidence"
REPO="${VERIF_REPO:-/repo}"
HARNESS="$HERE/harness"
if [ "$REPO" != "/repo" ]; then
  # exploratory runs against a snapshot of the repository (never used by the registered checks)
  rm -rf "$HERE/build/harness-alt" && cp -r "$HERE/harness" "$HERE/build/harness-alt"
  HARNESS="$HERE/build/harness-alt"
  (cd "$HARNESS" && go mod edit -replace "github.com/onflow/atree=$REPO")
fi
cd "$HARNESS" || exit 2
cp "$REPO/go.sum" go.sum 2>/dev/null
ID="${1:-}"
case "$ID" in
  C04|C16)
    # schedule-controlled build: instrument the current sources, build with the overlay
    if ! go build -o "$HERE/bin/instrument" ./cmd/instrument 2>"$HERE/build/build.err"; then
      echo "BUILD FAILED (instrumenter):"; cat "$HERE/build/build.err"; exit 2
    fi
    if ! (cd "$REPO" && "$HERE/bin/instrument" "$REPO" "$HERE/build/sched" "$HERE/harness/vsched_src/vsched.go") >"$HERE/build/instrument.out" 2>&1; then
      echo "TOOL ERROR (instrumenter could not rewrite the current sources):"; cat "$HERE/build/instrument.out"; exit 2
    fi
    cat "$HERE/build/instrument.out"
    if ! go build -tags "verif sched" -overlay "$HERE/build/sched/overlay.json" -o "$HERE/bin/check-sched" ./cmd/check 2>"$HERE/build/build.err"; then
      echo "BUILD FAILED (schedule-controlled harness against /repo working tree):"; cat "$HERE/build/build.err"; exit 2
    fi
    if [ "$ID" = "C16" ]; then
      if ! go build -race -tags "verif sched" -overlay "$HERE/build/sched/overlay.json" -o "$HERE/bin/check-race" ./cmd/check 2>"$HERE/build/build.err"; then
        echo "BUILD FAILED (race build):"; cat "$HERE/build/build.err"; exit 2
      fi
    fi
    cd "$HERE"
    exec "$HERE/bin/check-sched" "$@"
    ;;
esac
# Sequential checks: build from rewritten copies of the current sources (overlay; /repo untouched) so that the
# two sources of nondeterminism inside the library are owned: sync.Pool becomes a deterministic LIFO stack that
# starts empty in every execution, and every `range` over a Go map iterates in canonical order (vsched.DetMaps).
# Preference: full rewrite (pools + map ranges; hooks are no-ops around the real primitives when no controller is
# attached) -> pools only (textual import redirection) -> plain build with the real sync.Pool.
POOLS_OK=0
if go build -o "$HERE/bin/instrument" ./cmd/instrument 2>"$HERE/build/build.err"; then
  if (cd "$REPO" && "$HERE/bin/instrument" "$REPO" "$HERE/build/seq" "$HERE/harness/vsched_src/vsched.go") >"$HERE/build/seq.out" 2>&1 && \
     go build -tags "verif pools" -overlay "$HERE/build/seq/overlay.json" -o "$HERE/bin/check" ./cmd/check 2>"$HERE/build/build.err"; then
    POOLS_OK=1
  elif (cd "$REPO" && "$HERE/bin/instrument" "$REPO" "$HERE/build/pools" "$HERE/harness/vsched_src/vsched.go" --pools-only) >"$HERE/build/pools.out" 2>&1 && \
     go build -tags "verif pools" -overlay "$HERE/build/pools/overlay.json" -o "$HERE/bin/check" ./cmd/check 2>"$HERE/build/build.err"; then
    POOLS_OK=1
    echo "note: map ranges not rewritten ($(tail -1 "$HERE/build/seq.out" 2>/dev/null)); pool shim only"
  fi
fi
if [ "$POOLS_OK" != 1 ]; then
  echo "note: pool shim not applied ($(tail -1 "$HERE/build/pools.out" 2>/dev/null)); plain build"
  if ! go build -tags verif -o "$HERE/bin/check" ./cmd/check 2>"$HERE/build/build.err"; then
    echo "BUILD FAILED (harness against /repo working tree):"
    cat "$HERE/build/build.err"
    exit 2
  fi
fi
cd "$HERE"
exec "$HERE/bin/check" "$@"
