#!/bin/bash
# run.sh <Cxx> [quick|thorough] [--replay file]  — rebuilds the harness from /repo's current tree, then runs the check.
set -u
HERE="$(cd "$(dirname "$0")" && pwd)"
export GOFLAGS=-mod=mod GOPROXY=off
export VERIF_DIR="$HERE"
mkdir -p "$HERE/bin" "$HERE/build" "$HERE/evidence"
cd "$HERE/harness" || exit 2
cp /repo/go.sum go.sum 2>/dev/null
if ! go build -tags verif -o "$HERE/bin/check" ./cmd/check 2>"$HERE/build/build.err"; then
  echo "BUILD FAILED (harness against /repo working tree):"
  cat "$HERE/build/build.err"
  exit 2
fi
cd "$HERE"
exec "$HERE/bin/check" "$@"
