#!/bin/bash
# run.sh <Cxx> [quick|thorough] [--replay file]  — rebuilds the harness from /repo's current tree, then runs the check.
set -u
HERE="$(cd "$(dirname "$0")" && pwd)"
export GOFLAGS=-mod=mod GOPROXY=off
export VERIF_DIR="$HERE"
REPO="${VERIF_REPO:-/repo}"
BIN="$HERE/bin"; BUILD="$HERE/build"
if [ "$REPO" != "/repo" ]; then
  # exploratory runs against a snapshot keep their binaries and overlays apart from those of the registered checks
  BUILD="$HERE/build/alt-$(basename "$REPO")"; BIN="$BUILD/bin"
fi
mkdir -p "$BIN" "$BUILD" "$HERE/evidence"
HARNESS="$HERE/harness"
if [ "$REPO" != "/repo" ]; then
  # exploratory runs against a snapshot of the repository (never used by the registered checks)
  rm -rf "$BUILD/harness-alt" && cp -r "$HERE/harness" "$BUILD/harness-alt"
  HARNESS="$BUILD/harness-alt"
  (cd "$HARNESS" && go mod edit -replace "github.com/onflow/atree=$REPO")
fi
cd "$HARNESS" || exit 2
cp "$REPO/go.sum" go.sum 2>/dev/null
ID="${1:-}"
case "$ID" in
  C04|C16)
    # schedule-controlled build: instrument the current sources, build with the overlay
    if ! go build -o "$BIN/instrument" ./cmd/instrument 2>"$BUILD/build.err"; then
      echo "BUILD FAILED (instrumenter):"; cat "$BUILD/build.err"; exit 2
    fi
    if ! (cd "$REPO" && "$BIN/instrument" "$REPO" "$BUILD/sched" "$HERE/harness/vsched_src/vsched.go") >"$BUILD/instrument.out" 2>&1; then
      echo "TOOL ERROR (instrumenter could not rewrite the current sources):"; cat "$BUILD/instrument.out"; exit 2
    fi
    cat "$BUILD/instrument.out"
    if ! go build -tags "verif sched" -overlay "$BUILD/sched/overlay.json" -o "$BIN/check-sched" ./cmd/check 2>"$BUILD/build.err"; then
      echo "BUILD FAILED (schedule-controlled harness against /repo working tree):"; cat "$BUILD/build.err"; exit 2
    fi
    if [ "$ID" = "C16" ] || [ "$ID" = "C04" ]; then
      if ! go build -race -tags "verif sched" -overlay "$BUILD/sched/overlay.json" -o "$BIN/check-race" ./cmd/check 2>"$BUILD/build.err"; then
        echo "BUILD FAILED (race build):"; cat "$BUILD/build.err"; exit 2
      fi
    fi
    cd "$HERE"
    exec "$BIN/check-sched" "$@"
    ;;
esac
# Sequential checks: build from rewritten copies of the current sources (overlay; /repo untouched) so that the
# two sources of nondeterminism inside the library are owned: sync.Pool becomes a deterministic LIFO stack that
# starts empty in every execution, and every `range` over a Go map iterates in canonical order (vsched.DetMaps).
# Preference: full rewrite (pools + map ranges; hooks are no-ops around the real primitives when no controller is
# attached) -> pools only (textual import redirection) -> plain build with the real sync.Pool.
POOLS_OK=0
if go build -o "$BIN/instrument" ./cmd/instrument 2>"$BUILD/build.err"; then
  if (cd "$REPO" && "$BIN/instrument" "$REPO" "$BUILD/seq" "$HERE/harness/vsched_src/vsched.go") >"$BUILD/seq.out" 2>&1 && \
     go build -tags "verif pools" -overlay "$BUILD/seq/overlay.json" -o "$BIN/check" ./cmd/check 2>"$BUILD/build.err"; then
    POOLS_OK=1
  elif (cd "$REPO" && "$BIN/instrument" "$REPO" "$BUILD/pools" "$HERE/harness/vsched_src/vsched.go" --pools-only) >"$BUILD/pools.out" 2>&1 && \
     go build -tags "verif pools" -overlay "$BUILD/pools/overlay.json" -o "$BIN/check" ./cmd/check 2>"$BUILD/build.err"; then
    POOLS_OK=1
    echo "note: map ranges not rewritten ($(tail -1 "$BUILD/seq.out" 2>/dev/null)); pool shim only"
  fi
fi
if [ "$POOLS_OK" != 1 ]; then
  echo "note: pool shim not applied ($(tail -1 "$BUILD/pools.out" 2>/dev/null)); plain build"
  if ! go build -tags verif -o "$BIN/check" ./cmd/check 2>"$BUILD/build.err"; then
    echo "BUILD FAILED (harness against /repo working tree):"
    cat "$BUILD/build.err"
    exit 2
  fi
fi
cd "$HERE"
exec "$BIN/check" "$@"
