#!/bin/bash
# Runs every quick check on the current tree; prints one line per check.
for c in ${CHECKS:-C01 C02 C03 C04 C05 C06 C07 C08 C09 C10 C11 C12 C13 C14 C15 C16 C17 C18 C19 C20}; do
  s=$(date +%s)
  out=$(./run.sh $c quick 2>&1); rc=$?
  echo "QUICK $c exit=$rc time=$(( $(date +%s) - s ))s :: $(echo "$out" | grep "^check $c done" )"
  [ $rc -ne 0 ] && echo "$out" | grep -m3 "violation:\|HARNESS\|BUILD\|TOOL" | cut -c1-300
done
