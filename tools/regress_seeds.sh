#!/bin/bash
# regress_seeds.sh: every kept seed against the quick check of the property it was written for (scratch worktrees).
cd "$(dirname "$0")/.."
for d in seeded/*; do
  id=$(basename $d)
  prop=${id:0:3}
  case $id in
    C10-r5|C20-r5) prop=C11 ;;   # its effect is C11's subject (see meta.json)
    C02-r5|C09-r10|C15-r11) continue ;;
    C02) prop=C11 ;;      # first-round C02 seed is a stale-handle bug (see DESIGN §6)   # not counted: needs an invalid history
  esac
  tools/seedrun_wt.sh $id $prop 2>&1 | grep "^SEED"
done
