#!/bin/bash
# seedrun.sh <id> <checks...>: apply /verif/seeded/<id>/patch.diff to /repo, run quick checks, undo.
id=$1; shift
cd /repo && git diff --quiet || { echo "repo dirty"; exit 3; }
git -C /repo apply /verif/seeded/$id/patch.diff || { echo "patch does not apply"; exit 3; }
# evidence files must only ever come from runs on the unchanged tree: keep them aside
EVS=$(mktemp -d /root/evsave.XXXX); cp -r /verif/evidence/. $EVS/
for c in "$@"; do
  start=$(date +%s)
  out=$(cd /verif && timeout 1800 ./run.sh $c ${TIER:-quick} 2>&1)
  rc=$?
  nv=$(echo "$out" | grep -c "^VIOLATION")
  echo "SEED $id check $c exit=$rc violations=$nv time=$(( $(date +%s) - start ))s"
  echo "$out" | grep -m2 -A2 "violation:" | cut -c1-400
done
git -C /repo checkout -- .
cp -r $EVS/. /verif/evidence/; rm -rf $EVS
