#!/usr/bin/env python3
# Fifth-round seed prompts: the change must live in a library file that none of the 80 earlier seeds touched.
import re
UNTOUCHED = "map_iterator.go, array_iterator.go, errors.go, flag.go, array_data_slab_encode.go, array_metadata_slab_encode.go, map_metadata_slab_encode.go, map_elements.go, map_elements_encode.go, map_elements_decode.go, map_element_encode.go, map_element_decode.go, storable_slab.go, storable.go, slab_id.go, slab_id_storable.go, map_extradata.go, array_extradata.go, map_slab.go, array_slab.go, settings.go, decode.go, encode.go, slice_utils.go, math_utils.go, value_id.go, slab.go, buffer.go, map_size_consts.go, array_size_consts.go"
for c in ["C01","C02","C05","C06","C07","C09","C10","C11","C12","C13","C17","C18","C19"]:
    s = open(f"prompts/{c}-r4.txt").read()
    s = s.replace(f"/tmp/wt4-{c}", f"/tmp/wt5-{c}")
    head = s[:s.index("IMPORTANT: this is a fourth round.")]
    tail = ("IMPORTANT: this is a fifth round; eighty changes already exist for this library's properties. HARD CONSTRAINT: your change must be made in one (or two) of the "
            "following library files, which NONE of the earlier changes touched: " + UNTOUCHED + ". (If the behaviour you break is reached through code in another file, that is fine, "
            "but the edited lines must be in the listed files.) Pick the file(s) whose logic the property above depends on, read it closely, and look for a realistic slip there: "
            "a constant or size term, a flag bit, a boundary comparison, an index/offset computation, a missing case in a switch, a cursor hand-off, a wrong error constructor or category, "
            "an encode/decode asymmetry that only shows for particular shapes. Prefer a change whose effect is silent for many operations and only shows through a later, specific observation.\n\n"
            "Rules of conduct: never use `git stash`; never use pkill/killall (other agents run the same test binary name in sibling worktrees; kill only PIDs you started); "
            "do not ask anyone what a verification harness can or cannot see (the property text is the only scope); the machine is shared and busy, so give the full suite a 30-minute timeout.\n")
    open(f"prompts/{c}-r5.txt", "w").write(head + tail)
print("ok")
