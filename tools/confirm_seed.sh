#!/bin/bash
# confirm_seed.sh <id>: in a scratch worktree confirm that the seeded change compiles, keeps the
# existing suite green, and that the demonstration fails with it and passes without it.
id=$1
D=/verif/seeded/$id
WT=/tmp/confirm-$id
export GOFLAGS=-mod=mod GOPROXY=off
git -C /repo worktree remove --force $WT 2>/dev/null
git -C /repo worktree add -q --detach $WT HEAD || exit 3
cd $WT
demos=$(ls $D/seeded_*_test.go)
{
echo "== confirm $id at $(git -C /repo log --format=%h -1) =="
git apply $D/patch.diff && echo "patch applies" || { echo "PATCH DOES NOT APPLY"; }
go build ./... && go build -tags verif ./... && echo "builds: ok" || echo "BUILD FAILS"
cp $demos .
tn=$(cat $demos | grep -o 'func Test[A-Za-z0-9_]*' | head -1 | sed 's/func //')
echo "-- demo with change (expect FAIL):"
go test -vet=off -count=1 -run "^${tn}\$" . 2>&1 | tail -3
for f in $demos; do rm $(basename $f); done
echo "-- full existing suite with change (expect ok):"
go test -vet=off -count=1 -timeout 25m ./... 2>&1 | tail -4
git checkout -q -- .
cp $demos .
echo "-- demo without change (expect ok):"
go test -vet=off -count=1 -run "^${tn}\$" . 2>&1 | tail -3
} > $D/confirm.log 2>&1
cd /
git -C /repo worktree remove --force $WT
echo "confirm $id done"; tail -12 $D/confirm.log
