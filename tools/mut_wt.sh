#!/bin/bash
# mut_wt.sh <name> <python-edit-script (cwd = scratch worktree)> <check ids...>: hand-made change in a scratch worktree,
# quick checks against it through VERIF_REPO, worktree removed afterwards (/repo untouched).
name=$1; edit=$2; shift 2
WT=/tmp/mutwt-$name
git -C /repo worktree remove --force $WT 2>/dev/null
git -C /repo worktree add -q --detach $WT HEAD || exit 3
(cd $WT && python3 -c "$edit") || { echo "edit failed"; git -C /repo worktree remove --force $WT; exit 3; }
git -C $WT diff --stat | tail -1
(cd $WT && GOFLAGS=-mod=mod GOPROXY=off go build ./... ) || { echo "does not compile"; git -C /repo worktree remove --force $WT; exit 3; }
EVS=$(mktemp -d /root/evsave.XXXX); cp -r /verif/evidence/. $EVS/
for c in "$@"; do
  out=$(cd /verif && VERIF_REPO=$WT timeout 1200 ./run.sh $c quick 2>&1)
  rc=$?
  nv=$(echo "$out" | grep -c "^VIOLATION")
  echo "MUT $name check $c exit=$rc violations=$nv"
  echo "$out" | grep -m2 "violation:" | cut -c1-300
done
cp -r $EVS/. /verif/evidence/; rm -rf $EVS
git -C /repo worktree remove --force $WT; rm -rf /verif/build/alt-$(basename $WT)
