#!/bin/bash
# import_seed.sh <seed-id> <worktree>: copy an agent's patch, demonstration and notes into /verif/seeded/<seed-id>/
id=$1; wt=$2
mkdir -p /verif/seeded/$id
cp $wt/patch.diff $wt/NOTES.md /verif/seeded/$id/ || exit 1
cp $wt/seeded_*_test.go /verif/seeded/$id/ || exit 1
ls -la /verif/seeded/$id
