#!/usr/bin/env python3
# Fourth-round seed prompts: same property text, own worktree /tmp/wt4-<C>, one-line descriptions of the three earlier seeds.
import re
R3 = {
 "C01": "decoded inlined sibling arrays share one extra-data (type) object after a reload",
 "C02": "map rebalanceChildren no longer stores the right sibling after a borrow (visible after commit + cold reopen)",
 "C03": "Array.set on an inlined child allocates an oversized value's slab under the temporary address",
 "C04": "non-transitive comparator in the deterministic commit's key sort (two owners)",
 "C05": "Array.PopIterate on an inlined child records the standalone prefix size",
 "C06": "batch array build: two leaves merged into the root keep the non-root prefix size",
 "C07": "a Flush dropped in two encoders (compact-map extra data written after the sibling link)",
 "C08": "SetType of a nested child stored as its own slab does not store that slab",
 "C09": "array index slab not stored after a Set-triggered merge (dangling reference after commit)",
 "C10": "MapDataSlab.Inlinable uses < instead of <= (child exactly at the inline limit)",
 "C11": "Array.Set keeps the tracked index of an overwritten child that was stored as its own slab",
 "C12": "external collision group slab not stored when a removal leaves one nested-group entry",
 "C13": "mutable array range iterator accepts end < start instead of rejecting it",
 "C14": "lastFlushed index starts at 0 in the deterministic commit (fault at position 0 drops the slab from the write set)",
 "C15": "read-cache entry set to nil before the ledger Remove returned (fault at a pending removal)",
 "C16": "BatchPreload result channel with capacity numWorkers (deadlock on an early error return)",
 "C17": "ByteSliceToByteArray fast path sizes every element like the first one",
 "C18": "Array.set registers the nested child (callback, tracked index) before the index is validated",
 "C19": "compact-map value count compared with the extra data's Count instead of the number of field names",
 "C20": "parallel path of the order-relaxed commit leaves a removed slab in the read cache",
}
for c, d3 in R3.items():
    s = open(f"prompts/{c}-r3.txt").read()
    s = s.replace(f"/tmp/wt3-{c}", f"/tmp/wt4-{c}")
    m = re.search(r"IMPORTANT: this is a third round\. Two changes for this property already exist: (.*?)\. Your change must be clearly DIFFERENT from both", s, re.S)
    prev = m.group(1)
    head = s[:s.index("IMPORTANT: this is a third round.")]
    tail = (f"IMPORTANT: this is a fourth round. Three changes for this property already exist: {prev}; (3) {d3}. "
            "Your change must be clearly DIFFERENT from all three: a different mechanism in a different function (preferably a file none of them touched), "
            "needing a different kind of history/input/schedule/fault position to manifest. Look for logic the earlier changes did not go near: "
            "less common slab sizes, unusual element kinds or combinations of features (e.g. nested containers inside collision groups, wrapped values, "
            "externalised keys, composite maps, multi-level index slabs, the temporary address, version-0 data), error and clean-up paths, "
            "the second of two symmetric branches (left/right, array/map, first/last). Prefer a change whose effect is silent for many operations and "
            "only shows through a later, specific observation, or one that needs two cooperating sites.\n\n"
            "Rules of conduct: never use `git stash`; never use pkill/killall (other agents run the same test binary name in sibling worktrees; kill only PIDs you started); "
            "do not ask anyone what a verification harness can or cannot see (the property text is the only scope); the machine is shared, so give the full suite a 25-minute timeout.\n")
    open(f"prompts/{c}-r4.txt", "w").write(head + tail)
print("ok")
