#!/usr/bin/env python3
# Generates third-round seed prompts tools/prompts/<C>-r3.txt from the second-round ones:
# same property text, own worktree /tmp/wt3-<C>, and one-line descriptions of BOTH earlier seeds to avoid.
import re, sys
R2 = {
 "C01": "array index slab not stored after a Set-triggered merge/rebalance (only visible after commit+reopen with positional reads)",
 "C02": "pooled default digester keeps a stale cached BLAKE3 hash (needs first-level collisions under the default digester)",
 "C03": "array index slab not stored after a Set-triggered merge/rebalance",
 "C04": "a 'blake3 computed' flag on pooled digesters that Reset does not clear (register bytes depend on pool reuse)",
 "C05": "stale cached slab count in the two batch constructors (exactly two leaves, the last merged into the first)",
 "C06": "wrong reported size of the right map index slab after LendToRight with an odd child count",
 "C07": "compact-map values written with the inverse permutation of the shared key order",
 "C08": "map rebalanceChildren stores the left sibling twice and never the right one",
 "C09": "singleElement.Set re-creates the key storable on overwrite (leaks an externalised key slab)",
 "C10": "SetType of a child stored as its own slab only notifies the parent and does not store the child's slab",
 "C11": "decoded inlined compact maps share the digest slice of the shared extra data",
 "C12": None, "C16": None, "C17": None,
 "C13": "singleElements.Remove swap-removes (breaks insertion order among fully colliding keys)",
 "C14": "store error swallowed in the sequential commit helper, which FastCommit uses for write sets < 2 slabs",
 "C15": "order-relaxed parallel commit no longer refreshes the read cache entry of a committed slab",
 "C18": "comparator error returned unwrapped by Get/Has in the digest-less (all levels collide) collision list",
 "C19": "minimum-length check of the v1 array index-slab decoder moved before the root extra data is consumed",
 "C20": "GetAllChildReferences resolves children via RetrieveIfLoaded + cache-bypassing read, resurrecting a slab whose removal is pending",
}
if len(sys.argv) > 1:
    import json
    R2.update(json.loads(sys.argv[1]))
for c, d2 in R2.items():
    if d2 is None:
        continue
    s = open(f"prompts/{c}-r2.txt").read()
    s = s.replace(f"/tmp/wt2-{c}", f"/tmp/wt3-{c}")
    m = re.search(r"IMPORTANT: this is a second round\. A previous change for this property already exists: (.*?)\. Your change must be clearly DIFFERENT", s, re.S)
    d1 = m.group(1)
    head = s[:s.index("IMPORTANT: this is a second round.")]
    tail = (f"IMPORTANT: this is a third round. Two changes for this property already exist: (1) {d1}; (2) {d2}. "
            "Your change must be clearly DIFFERENT from both: a different mechanism in a different function (preferably a different file), "
            "needing a different kind of history/input/schedule/fault position to manifest. Prefer a change whose effect is silent for many "
            "operations and only shows through a later, specific observation (a particular read, commit/reload, iteration, size or structure check), "
            "or one that needs two cooperating sites.\n")
    open(f"prompts/{c}-r3.txt", "w").write(head + tail)
    print("wrote", c)
