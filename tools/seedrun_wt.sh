#!/bin/bash
# seedrun_wt.sh <id> <checks...>: like seedrun.sh, but the seeded change is applied to a scratch worktree of /repo
# (used while something else, e.g. a background thorough run, needs /repo itself unchanged).
id=$1; shift
WT=/tmp/seedwt-$id
git -C /repo worktree remove --force $WT 2>/dev/null
git -C /repo worktree add -q --detach $WT HEAD || exit 3
git -C $WT apply /verif/seeded/$id/patch.diff || { echo "patch does not apply"; git -C /repo worktree remove --force $WT; exit 3; }
EVS=$(mktemp -d /root/evsave.XXXX); cp -r /verif/evidence/. $EVS/
for c in "$@"; do
  start=$(date +%s)
  out=$(cd /verif && VERIF_REPO=$WT timeout 1800 ./run.sh $c ${TIER:-quick} 2>&1)
  rc=$?
  nv=$(echo "$out" | grep -c "^VIOLATION")
  echo "SEED $id check $c exit=$rc violations=$nv time=$(( $(date +%s) - start ))s"
  echo "$out" | grep -m2 -A2 "violation:" | cut -c1-400
done
cp -r $EVS/. /verif/evidence/; rm -rf $EVS
git -C /repo worktree remove --force $WT; rm -rf /verif/build/alt-$(basename $WT)
# rebuild the default binary against /repo
