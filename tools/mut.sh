#!/bin/bash
# mut.sh <name> <python-edit-script> <check ids...> : apply an edit to /repo, run quick checks, revert.
name=$1; edit=$2; shift 2
cd /repo && git diff --quiet || { echo "repo dirty"; exit 3; }
python3 -c "$edit" || { echo "edit failed"; git -C /repo checkout -- .; exit 3; }
git -C /repo diff --stat | tail -1
(cd /repo && GOFLAGS=-mod=mod GOPROXY=off go build ./... ) || { echo "does not compile"; git -C /repo checkout -- .; exit 3; }
EVS=$(mktemp -d /root/evsave.XXXX); cp -r /verif/evidence/. $EVS/
for c in "$@"; do
  out=$(cd /verif && timeout 900 ./run.sh $c quick 2>&1)
  rc=$?
  nv=$(echo "$out" | grep -c "^VIOLATION")
  echo "MUT $name check $c exit=$rc violations=$nv"
  echo "$out" | grep -m2 "violation:" | cut -c1-300
done
git -C /repo checkout -- .
cp -r $EVS/. /verif/evidence/; rm -rf $EVS
