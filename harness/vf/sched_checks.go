//go:build sched

package vf

import (
	"fmt"
	"strings"
)

func init() {
	RegisterCheck(&CheckDef{ID: "C16", Level: "model_checking", Run: runC16})
	RegisterCheck(&CheckDef{ID: "C04", Level: "model_checking", Run: runC04})
}

func runC16(r *Run) {
	r.Rule = "stateless exploration of the REAL commit/preload code under a cooperative scheduler (sources rewritten on the fly: every goroutine start, channel send/receive/close, select-default, WaitGroup operation and sync.Pool Get/Put is a scheduling point): all schedules up to the preemption bound (iterative context bounding) for FastCommit / NondeterministicFastCommit with 1-3 workers (and 8 / 64 workers at one preemption) over a corpus of pending write sets (incl. one slab that fails to encode), BatchPreload of 12+ registers with 2-3 workers (incl. one undecodable register), and 2-3 independent clients with their own storages colliding on the process-wide digester / buffer / type-id pools (LIFO pool shim with a poison check); every execution: no deadlock, no panic, no pool poison, registers + ledger call log (ordered for the deterministic commit, as a multiset for the relaxed one) + cache + write set + error equal to the one-goroutine execution, each client equal to its solo run. states = executions (distinct schedules); plus a free-running -race pass of the same bodies"
	r.Assumptions = []string{
		"memory-ordering effects below Go's synchronisation primitives are not modelled; unsynchronised accesses are the free-running -race pass's job (a cooperative scheduler's hand-offs are happens-before edges)",
		"sync.Pool is replaced by a deterministic LIFO stack shared by all goroutines (the adversarial choice for reuse)",
		"preemption bound 2 (quick) / 3 (thorough); the bound completed is reported; scenarios that hit their time budget are reported as capped",
	}
	if !selfCheckEngine(r) {
		return
	}
	pre := 2
	budget := 12
	if r.Thorough() {
		pre = 3
		budget = 600
	}
	var args []any
	for h, ops := range c14Histories() {
		for _, relaxed := range []bool{false, true} {
			for _, wk := range []int{2, 3} {
				args = append(args, schedArg{Scenario: "commit", Hist: h, Prefix: len(ops), Relaxed: relaxed, Workers: wk, Bounds: schedBounds{Preempt: pre}, Budget: budget})
			}
		}
	}
	for _, relaxed := range []bool{false, true} {
		for _, wk := range []int{2, 3} {
			args = append(args, schedArg{Scenario: "commit", Hist: 1, Relaxed: relaxed, Workers: wk, Variant: 1, Bounds: schedBounds{Preempt: pre}, Budget: budget})
			args = append(args, schedArg{Scenario: "commit", Hist: 1, Relaxed: relaxed, Workers: wk, Variant: 2, Bounds: schedBounds{Preempt: pre}, Budget: budget})
			args = append(args, schedArg{Scenario: "commit", Hist: 6, Relaxed: relaxed, Workers: wk, Variant: 2, Bounds: schedBounds{Preempt: pre}, Budget: budget})
			args = append(args, schedArg{Scenario: "commit", Hist: 1, Relaxed: relaxed, Workers: wk, Variant: 3, Bounds: schedBounds{Preempt: pre}, Budget: budget})
		}
	}
	for _, wk := range []int{2, 3} {
		for _, v := range []int{0, 1} {
			args = append(args, schedArg{Scenario: "preload", Workers: wk, Variant: v, Bounds: schedBounds{Preempt: pre}, Budget: budget})
		}
	}
	// many workers (more than there are slabs / registers: the library clamps the count): 8 and 64.  With that many
	// goroutines even the schedules WITHOUT preemption (free choices whenever a goroutine blocks or ends) are too many
	// to finish under the budget: these scenarios are supplementary — as many distinct schedules as the budget
	// allows, in the explorer's canonical order — and are reported separately from the bounded ones
	for _, wk := range []int{8, 64} {
		for _, relaxed := range []bool{false, true} {
			args = append(args, schedArg{Scenario: "commit", Hist: 6, Relaxed: relaxed, Workers: wk, Bounds: schedBounds{Preempt: 1}, Budget: budget, Supp: true})
			args = append(args, schedArg{Scenario: "commit", Hist: 1, Relaxed: relaxed, Workers: wk, Variant: 1, Bounds: schedBounds{Preempt: 1}, Budget: budget, Supp: true})
		}
		args = append(args, schedArg{Scenario: "preload", Workers: wk, Variant: 0, Bounds: schedBounds{Preempt: 1}, Budget: budget, Supp: true})
		args = append(args, schedArg{Scenario: "preload", Workers: wk, Variant: 1, Bounds: schedBounds{Preempt: 1}, Budget: budget, Supp: true})
	}
	r.RunTaskGroup(fmt.Sprintf("parallel commit / preload, preemption bound %d", pre), "sched", args)
	// every pending write set reachable inside a bounded universe, not only the corpus: both commits, 2 workers
	epre, edepth := 1, 3
	if r.Thorough() {
		epre, edepth = 2, 4
	}
	if batches := exploredCommitBatches(r, edepth, 24); batches != nil {
		args = nil
		for _, b := range batches {
			args = append(args, schedArg{Scenario: "commit", Workers: 2, Batch: b, Bounds: schedBounds{Preempt: epre}, Budget: budget})
		}
		r.RunTaskGroup(fmt.Sprintf("parallel commit over every explored write set (depth %d), preemption bound %d", edepth, epre), "sched", args)
	}
	args = nil
	for v := range clientSets {
		cb := budget
		if !r.Thorough() {
			cb = 2 * budget // the pool-sharing scenarios have the most choice points; give bound 1 room to complete under load
		}
		args = append(args, schedArg{Scenario: "clients", Variant: v, Bounds: schedBounds{Preempt: pre}, Budget: cb})
	}
	r.RunTaskGroup(fmt.Sprintf("independent clients sharing the pools, preemption bound %d", pre), "sched", args)
	reportBounds(r, pre)
	raceComplement(r)
}

func runC04(r *Run) {
	r.Rule = "stateless exploration of the REAL commit code under the cooperative scheduler with Go map iteration order as an additional choice point (every `range` over a map in package atree is rewritten to iterate a permutation chosen by the explorer): for a corpus of histories, worker counts 1-4, all encoder-worker interleavings up to the preemption bound x all map iteration orders up to the deviation bound: registers byte-identical to the canonical execution, the deterministic commit's ledger calls in strictly ascending (owner, index) order and identical to the canonical sequence, the relaxed commit's calls a permutation of it; the index-shifting loops of arrays with 2-3 tracked children under all permutations; plus re-runs of each history in this and in two fresh processes"
	r.Assumptions = []string{
		"map iteration orders: all n! for n <= 4 keys, identity/reverse/all rotations above",
		"deviation bounds: preemptions <= 2 and non-canonical map orders <= 2 (quick), 3 and 3 (thorough)",
	}
	if !selfCheckEngine(r) {
		return
	}
	pre, mo, budget := 2, 2, 12
	if r.Thorough() {
		pre, mo, budget = 3, 3, 600
	}
	var args []any
	for h, ops := range c14Histories() {
		for _, relaxed := range []bool{false, true} {
			for _, wk := range []int{1, 2, 3, 4} {
				p := pre
				if wk >= 3 && !r.Thorough() {
					p = 1
				}
				args = append(args, schedArg{Scenario: "commit", Hist: h, Prefix: len(ops), Relaxed: relaxed, Workers: wk, Bounds: schedBounds{Preempt: p, MapOrder: mo}, Budget: budget, Strict: true})
			}
		}
	}
	// a commit that is rejected because one slab cannot be encoded must leave the same ledger, cache and write
	// set whatever the number of workers (nothing may have been written by some worker counts only)
	for _, wk := range []int{1, 2, 3, 4} {
		args = append(args, schedArg{Scenario: "commit", Hist: 1, Relaxed: false, Workers: wk, Variant: 1, Bounds: schedBounds{Preempt: 1, MapOrder: 1}, Budget: budget, Strict: true})
	}
	r.RunTaskGroup(fmt.Sprintf("commit: interleavings (<=%d preemptions) x map orders (<=%d deviations)", pre, mo), "sched", args)
	// every pending write set reachable inside a bounded universe: both commits, 2 workers, one deviation of each kind
	edev, edepth := 1, 3
	if r.Thorough() {
		edev, edepth = 2, 4
	}
	if batches := exploredCommitBatches(r, edepth, 24); batches != nil {
		args = nil
		for _, b := range batches {
			args = append(args, schedArg{Scenario: "commit", Workers: 2, Batch: b, Bounds: schedBounds{Preempt: edev - 1, MapOrder: edev}, Budget: budget, Strict: true})
		}
		r.RunTaskGroup(fmt.Sprintf("commit over every explored write set (depth %d): <=%d preemptions x <=%d map-order deviations", edepth, edev-1, edev), "sched", args)
	}
	args = nil
	for v := 0; v < 3; v++ {
		args = append(args, schedArg{Scenario: "arrayshift", Variant: v, Bounds: schedBounds{Preempt: 0, MapOrder: 4}, Budget: budget})
	}
	r.RunTaskGroup("array index shifting under all map orders", "sched", args)
	reportBounds(r, pre)
	// plain variables shared between the commit's goroutines are invisible to a scheduler that switches at
	// synchronisation operations only: the same scenario bodies run free under the race detector (as in C16); an
	// unsynchronised access in the commit makes the ledger depend on timing
	raceComplement(r)
	// object-pool reuse across encodes of very different sizes: a collision-group slab far beyond 64 KiB goes through
	// the pooled buffers, then further slabs are encoded with whatever the pool hands back (LIFO shim: the same
	// buffer at once); every register must still decode, re-encode identically and hold the model's content
	var big []any
	for shape := 0; shape < 3; shape++ {
		big = append(big, collDeepArg{T: 1024, Shape: shape, N: 258, Big: true})
	}
	r.RunTaskGroup("pooled buffers after a > 64 KiB slab (collision group of 258 keys x 400-byte values)", "colldeep", big)
	crossProcess(r)
}

// exploredCommitBatches enumerates the distinct states (canonical key incl. which storage layer holds each slab) of
// the mixed universe — persistent array + map + temporary-address array, nested children, values too large to
// inline, commits as alphabet operations — up to the given depth and returns their histories in batches.
func exploredCommitBatches(r *Run, depth, size int) [][][]Op {
	spec := Spec{Name: "writesets-mixed", Prop: r.ID, Kind: "mixed", T: 256, L: 3, Keys: 2, Classes: []string{"t", "limA+", "A"},
		Oracles: []string{"ev:commit1"}, Depth: depth, Extra: map[string]int{"temp": 1, "collect": 1}}
	st, found, err := Explore(r.Pool, spec, r.Deadline(), 3)
	if err != nil {
		r.HarnessErr = err
		return nil
	}
	r.Found = append(r.Found, found...)
	seed := []Op{{K: "newarr"}, {K: "newmap"}, {K: "newarr", N: 1}}
	var batches [][][]Op
	var cur [][]Op
	n := 0
	for _, p := range st.Paths {
		if len(p) == 0 || p[len(p)-1].K == "commit" {
			continue
		}
		cur = append(cur, append(append([]Op{}, seed...), p...))
		n++
		if len(cur) == size {
			batches = append(batches, cur)
			cur = nil
		}
	}
	if len(cur) > 0 {
		batches = append(batches, cur)
	}
	r.Extra["explored_write_set_histories"] = n
	fmt.Printf("  explored write sets: %d states, %d histories with operations after the last commit\n", st.States, n)
	return batches
}

func init() {
	extraCommands["__racebodies"] = func(args []string) int { return raceBodiesMain(args) }
	extraCommands["__histdigest"] = func(args []string) int { return histDigestMain(args) }
}

// reportBounds summarises, per deviation bound, how many scenarios completed it.
func reportBounds(r *Run, requested int) {
	r.Stats.States = r.Evals
	hist := map[string]int{}
	minDone := requested
	for k, v := range r.Counters {
		var b int
		if strings.HasPrefix(k, "capped: ") {
			fmt.Printf("    %s\n", k)
			delete(r.Counters, k)
			continue
		}
		if n, _ := fmt.Sscanf(k, "scenarios_completed_bound_%d", &b); n == 1 {
			hist[fmt.Sprint(b)] = v
			if b < minDone {
				minDone = b
			}
		}
	}
	r.Extra["scenarios_by_highest_completed_deviation_bound"] = hist
	r.Extra["deviation_bound_completed_by_all_scenarios"] = minDone
	r.Extra["deviation_bound_requested"] = requested
	if n := r.Counters["supplementary_scenarios"]; n > 0 {
		r.Extra["supplementary_many_worker_scenarios"] = n
		r.Extra["supplementary_scenario_executions"] = r.Counters["supplementary_scenario_executions"]
	}
	if r.Counters["capped_scenarios"] > 0 {
		r.Stats.Exhaustive = false
		r.Stats.CapHit = fmt.Sprintf("%d scenario(s) hit their time budget before finishing bound %d; every scenario completed bound %d", r.Counters["capped_scenarios"], requested, minDone)
	}
	fmt.Printf("  deviation bounds completed: %v (requested %d)\n", hist, requested)
}
