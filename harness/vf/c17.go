package vf

import (
	"bytes"
	"os"
	"encoding/json"
	"errors"
	"fmt"
	"strings"

	"github.com/onflow/atree"
	tu "github.com/onflow/atree/test_utils"
)

// D6: bulk build, copy, byte conversion (C17).

type c17Arg struct {
	T      uint32   `json:"t"`
	Mode   string   `json:"mode"`   // "arr-streams", "arr-tails", "map-batch", "copy", "bytes", "negative"
	Prefix []string `json:"prefix"` // fixed first classes (arr-streams shard)
	MaxLen int      `json:"maxlen"`
	From   int      `json:"from"`
	To     int      `json:"to"`
	Tail   int      `json:"tail"`
	Shard  int      `json:"shard"`
	Shards int      `json:"shards"`
}

var c17Classes = []string{"t", "mid", "limA", "limA+"}

// value sizes of the map streams: the mixes that decide whether an under-full last leaf can borrow from its left
// sibling or must be merged into it need sizes between the extremes (a fifth, a quarter, a third of a slab)
var mapStreamClasses = []string{"t", "s50", "mid", "third", "limM", "limM+"}

var fullOracles = Spec{Oracles: []string{"sem", "struct", "reach", "size", "rt", "regs", "health"}}

// wrapArray builds a one-root world around an array created by a bulk constructor.
func wrapWorld(w *World, c *Cont) {
	c.Serial = len(w.Conts)
	w.Conts = append(w.Conts, c)
}

func c17Check(w *World, what string, res *TaskResult) bool {
	if err := RunOracles(w, fullOracles); err != nil {
		res.Viols = append(res.Viols, what+": "+err.Error())
		return false
	}
	return true
}

func buildBatchArray(w *World, classes []string) (*Cont, error) {
	var model []MV
	i := 0
	arr, err := atree.NewArrayFromBatchData(w.St, w.Addr, tu.NewSimpleTypeInfo(42), func() (atree.Value, error) {
		if i == len(classes) {
			return nil, nil
		}
		// nested containers (plain, wrapped, composite) are created standalone and handed over, like a caller
		// that deep-copies children into a new array; simple classes are plain values
		mv, rv, err := w.newValue(Op{V: classes[i]}, nil)
		if err != nil {
			return nil, err
		}
		i++
		model = append(model, mv)
		return rv, nil
	})
	if err != nil {
		if _, ok := err.(*Violation); ok {
			return nil, err
		}
		return nil, violf("NewArrayFromBatchData failed: %v", err)
	}
	c := &Cont{Elems: model, TypeID: 42, Arr: arr, VID: arr.ValueID(), SID: arr.SlabID()}
	wrapWorld(w, c)
	for _, mv := range model {
		attach(mv, c)
		if u, _ := Unwrap(mv); u != nil {
			if ch, ok := u.(*Cont); ok {
				// the handle used to build the child is not the parent's: re-obtain it through the parent
				ch.Arr, ch.Map = nil, nil
			}
		}
	}
	return c, nil
}

func runStream(T uint32, classes []string, res *TaskResult) {
	w := NewWorld(T)
	res.Evals++
	what := "batch array [" + strings.Join(classes, " ") + "]"
	c, err := buildBatchArray(w, classes)
	if err != nil {
		res.Viols = append(res.Viols, what+": "+err.Error())
		return
	}
	// shape signature for distinctness: the structure text
	txt, _ := w.StateText()
	res.Distinct = append(res.Distinct, HashText(txt))
	if len(res.Samples) < 2 {
		res.Samples = append(res.Samples, what)
	}
	if !c17Check(w, what, res) {
		return
	}
	// usable like an incrementally built array: the slabs the constructor produced must not share element
	// storage (a later insert that grows one slab's element list in place must not reach into its right
	// sibling).  The oracles above committed and reopened the state (slabs decoded afresh), so this runs on a
	// SECOND, untouched build of the same stream: inserts near the end, in the middle and at the front, content
	// compared after each, then the full oracle set again
	n := len(c.Elems)
	if n < 2 || n > 200 {
		return
	}
	w2 := NewWorld(T)
	c2, err := buildBatchArray(w2, classes)
	if err != nil {
		res.Viols = append(res.Viols, what+" (second build): "+err.Error())
		return
	}
	done := map[int]bool{}
	for _, p := range []int{n - 1, n - 2, n - 3, n - 4, n / 2, 0} {
		if p < 0 || done[p] {
			continue
		}
		done[p] = true
		if err := w2.Apply(Op{K: "insert", C: c2.Serial, I: uint64(p), V: "t"}); err != nil {
			res.Viols = append(res.Viols, what+fmt.Sprintf(": insert at %d after the bulk build: ", p)+err.Error())
			return
		}
		if err := w2.DeepCheck(); err != nil {
			res.Viols = append(res.Viols, what+fmt.Sprintf(": after an insert at %d following the bulk build: ", p)+err.Error())
			return
		}
	}
	c17Check(w2, what+" (after inserts)", res)
}

func c17Task(raw json.RawMessage) TaskResult {
	var a c17Arg
	var res TaskResult
	if err := json.Unmarshal(raw, &a); err != nil {
		res.Herr = err.Error()
		return res
	}
	res.Counters = map[string]int{}
	switch a.Mode {
	case "arr-streams":
		// all streams over the classes with the given prefix, total length <= MaxLen
		var rec func(cur []string)
		rec = func(cur []string) {
			runStream(a.T, cur, &res)
			if len(cur) >= a.MaxLen || len(res.Viols) > 3 {
				return
			}
			for _, cl := range c17Classes {
				rec(append(append([]string{}, cur...), cl))
			}
		}
		rec(a.Prefix)
	case "arr-streams-nested":
		// all streams up to MaxLen over an alphabet with nested children: inlined arrays / maps, same-typed
		// composite maps (compact form), wrapped children, children too large to inline, next to plain values
		nested := []string{"t", "limA", "A:t", "Mc:t,u5", "s:A:h,h", "M:t"}
		var rec func(cur []string)
		rec = func(cur []string) {
			runStream(a.T, cur, &res)
			if len(cur) >= a.MaxLen || len(res.Viols) > 3 {
				return
			}
			for _, cl := range nested {
				rec(append(append([]string{}, cur...), cl))
			}
		}
		rec(a.Prefix)
	case "arr-tails":
		// lengths From..To: uniform prefix of each class, last Tail elements over all patterns
		for n := a.From; n <= a.To; n++ {
			if n%a.Shards != a.Shard {
				continue
			}
			for _, pc := range c17Classes {
				tl := a.Tail
				if tl > n {
					tl = n
				}
				total := 1
				for i := 0; i < tl; i++ {
					total *= len(c17Classes)
				}
				for code := 0; code < total; code++ {
					cls := make([]string, n)
					for i := range cls {
						cls[i] = pc
					}
					x := code
					for i := 0; i < tl; i++ {
						cls[n-1-i] = c17Classes[x%len(c17Classes)]
						x /= len(c17Classes)
					}
					runStream(a.T, cls, &res)
					if len(res.Viols) > 3 {
						return res
					}
				}
			}
		}
	case "map-batch", "map-streams":
		c17MapBatch(a, &res)
	case "copy":
		c17Copy(a, &res)
	case "bytes":
		c17Bytes(a, &res)
	case "negative":
		c17Negative(a, &res)
	default:
		res.Herr = "unknown mode " + a.Mode
	}
	return res
}

func init() { RegisterTask("c17", c17Task) }

// ---- maps from a source map -----------------------------------------------------------------

func buildSourceMap(w *World, keys []int, classes []string) (*Cont, error) {
	c, err := w.NewCont(true, w.Addr, 42, false)
	if err != nil {
		return nil, err
	}
	for i, k := range keys {
		if err := w.Apply(Op{K: "mset", C: c.Serial, Key: k, V: classes[i%len(classes)]}); err != nil {
			return nil, err
		}
	}
	return c, nil
}

// batchCopyMap builds a new map from src's enumeration with src's seed.
func batchCopyMap(w *World, src *Cont) (*Cont, error) {
	it, err := src.Map.ReadOnlyIterator()
	if err != nil {
		return nil, violf("source ReadOnlyIterator: %v", err)
	}
	var keys, vals []MV
	m, err := atree.NewMapFromBatchData(w.St, w.Addr, w.digesterBuilder(), tu.NewSimpleTypeInfo(42), CompareValue, GetHashInput, src.Map.Seed(),
		func() (atree.Value, atree.Value, error) {
			k, v, err := it.Next()
			if err != nil || k == nil {
				return nil, nil, err
			}
			// model: find the source entry
			for i, mk := range src.Keys {
				if w.CmpValue(k, mk) == nil {
					keys = append(keys, mk)
					vals = append(vals, src.Vals[i])
				}
			}
			// large values live in their own slab in the source: hand over a fresh copy of the value
			if sv, ok := v.(tu.StringValue); ok {
				v = tu.NewStringValue(sv.String())
			}
			return k, v, nil
		})
	if err != nil {
		return nil, violf("NewMapFromBatchData failed: %v", err)
	}
	c := &Cont{IsMap: true, Keys: keys, Vals: vals, TypeID: 42, Map: m, VID: m.ValueID(), SID: m.SlabID(), Table: w.Digests != nil}
	wrapWorld(w, c)
	return c, nil
}

func c17MapBatch(a c17Arg, res *TaskResult) {
	classes := []string{"t", "limM", "limM+", "mid"}
	run := func(w *World, keys []int, what string) {
		res.Evals++
		src, err := buildSourceMap(w, keys, classes)
		if err != nil {
			res.Viols = append(res.Viols, what+": source: "+err.Error())
			return
		}
		cp, err := batchCopyMap(w, src)
		if err != nil {
			res.Viols = append(res.Viols, what+": "+err.Error())
			return
		}
		if cp.Map.Seed() != src.Map.Seed() {
			res.Viols = append(res.Viols, fmt.Sprintf("%s: copy has seed %d, source %d", what, cp.Map.Seed(), src.Map.Seed()))
			return
		}
		if len(cp.Keys) != len(src.Keys) {
			res.Viols = append(res.Viols, fmt.Sprintf("%s: copy received %d entries, source has %d", what, len(cp.Keys), len(src.Keys)))
			return
		}
		if err := OOrderOrReal(w); err != nil {
			res.Viols = append(res.Viols, what+": "+err.Error())
			return
		}
		// structure of the freshly built map, BEFORE anything else touches it (a later removal or a splitting
		// insert can repair a malformed tree): the library's verifier and the independent traversal
		if err := OStructInRepo(w); err != nil {
			res.Viols = append(res.Viols, what+": right after the bulk build: "+err.Error())
			return
		}
		if err := OStructIndependent(w, w.DoWalk(), "right after the bulk build"); err != nil {
			res.Viols = append(res.Viols, what+": "+err.Error())
			return
		}
		txt, _ := w.StateText()
		if os.Getenv("VERIF_DEBUG") != "" {
			fmt.Println(what)
			fmt.Println(txt)
		}
		res.Distinct = append(res.Distinct, HashText(txt))
		if len(res.Samples) < 2 {
			res.Samples = append(res.Samples, what)
		}
		// independence: mutate the source (overwrite one, remove one), the copy must not change; then the reverse
		if len(keys) > 0 {
			if err := w.Apply(Op{K: "mset", C: src.Serial, Key: keys[0], V: "limM+"}); err != nil {
				res.Viols = append(res.Viols, what+": mutate source: "+err.Error())
				return
			}
			if err := w.Apply(Op{K: "mremove", C: src.Serial, Key: keys[len(keys)-1]}); err != nil {
				res.Viols = append(res.Viols, what+": mutate source: "+err.Error())
				return
			}
			if err := w.Apply(Op{K: "mset", C: cp.Serial, Key: keys[len(keys)/2], V: "t"}); err != nil {
				res.Viols = append(res.Viols, what+": mutate copy: "+err.Error())
				return
			}
			if err := w.Apply(Op{K: "mset", C: cp.Serial, Key: 90, V: "limM"}); err != nil {
				res.Viols = append(res.Viols, what+": mutate copy: "+err.Error())
				return
			}
		}
		c17Check(w, what, res)
	}
	if a.Mode == "map-streams" {
		// every value-size sequence up to MaxLen (with the given prefix) as a source map whose keys are in
		// ascending digest order (caller-placed digests): the map twin of "all array streams"
		var rec func(cur []string)
		rec = func(cur []string) {
			if len(cur) > 0 {
				w := NewWorld(a.T)
				w.Digests = NewDigestTable()
				w.KeyOf = func(n int) MV { return Scalar{uint64(n)} }
				setCollisionLimit(255)
				keys := make([]int, len(cur))
				for i := range keys {
					keys[i] = i
				}
				classes = cur
				run(w, keys, "batch map from source with values ["+strings.Join(cur, " ")+"]")
			}
			if len(cur) >= a.MaxLen || len(res.Viols) > 3 {
				return
			}
			for _, cl := range mapStreamClasses {
				rec(append(append([]string{}, cur...), cl))
			}
		}
		rec(a.Prefix)
		return
	}
	// real hashing: n keys
	for n := a.From; n <= a.To; n++ {
		if n%a.Shards != a.Shard {
			continue
		}
		w := NewWorld(a.T)
		w.KeyOf = KeyOfDefault
		keys := make([]int, n)
		for i := range keys {
			keys[i] = i
		}
		run(w, keys, fmt.Sprintf("batch map from a %d-entry source (default digester)", n))
	}
	// keys colliding on the first level under the DEFAULT (pooled) digester: the bulk constructor takes its
	// collision branch with digesters from the process-wide pool
	if a.Shard == 1%a.Shards {
		for mask := 1; mask < 16; mask++ {
			for _, extra := range [][]int{nil, {0, 1, 2}} {
				var keys []int
				for b := 0; b < 4; b++ {
					if mask&(1<<b) != 0 {
						keys = append(keys, 300+b)
					}
				}
				keys = append(keys, extra...)
				w := NewWorld(a.T)
				w.KeyOf = KeyOfDefault
				classes = []string{"t", "s60"}
				run(w, keys, fmt.Sprintf("batch map from a source with colliding keys %v (default digester)", keys))
				classes = []string{"t", "limM", "limM+", "mid"}
			}
		}
	}
	// controlled digests incl. collision groups
	if a.Shard == 0 {
		for ai, asg := range DigestAssignments(3) {
			w := NewWorld(a.T)
			w.Digests = NewDigestTable()
			for k, d := range asg {
				var n uint64
				fmt.Sscanf(k, "%d", &n)
				w.Digests.Table[n] = d
			}
			setCollisionLimit(255)
			classes = []string{"t", "s60"}
			run(w, []int{0, 1, 2}, fmt.Sprintf("batch map from a 3-entry source, digest assignment %d", ai))
			classes = []string{"t", "limM", "limM+", "mid"}
		}
	}
}

// OOrderOrReal checks canonical order of all live root maps (table or default digester).
func OOrderOrReal(w *World) error {
	for _, c := range w.LiveRoots() {
		if !c.IsMap {
			continue
		}
		if err := w.EnsureHandle(c); err != nil {
			return err
		}
		order, err := w.canonMapOrder(c)
		if err != nil {
			return err
		}
		got, err := drainMap(c.Map.ReadOnlyIterator())
		if err != nil {
			return violf("ReadOnlyIterator: %v", err)
		}
		if err := w.cmpPairs(fmt.Sprintf("map c%d enumeration", c.Serial), got, c, order); err != nil {
			return err
		}
	}
	return nil
}

// ---- copy -------------------------------------------------------------------------------------

// c17CopyWorld: coll 0 = the default digester; 1 = the keys of the source collide on the first digest level (one
// inline collision group); 2 = they collide on every level (digest-less list).
func c17CopyWorld(T uint32, coll int) *World {
	w := NewWorld(T)
	if coll == 0 {
		w.KeyOf = KeyOfDefault
		return w
	}
	w.Digests = NewDigestTable()
	w.KeyOf = func(n int) MV { return Scalar{uint64(n)} }
	for k := 0; k < 4; k++ {
		d := [4]uint64{7, uint64(k) + 1, 1, 1}
		if coll == 2 {
			d = [4]uint64{7, 7, 7, 7}
		}
		w.Digests.Table[uint64(k)] = d
	}
	w.Digests.Table[50] = [4]uint64{9, 1, 1, 1}
	return w
}

func c17Copy(a c17Arg, res *TaskResult) {
	elemKinds := []string{"t", "s:t", "limA+", "s:limA+", "A:t", "s:A:t", "mid"}
	plain := map[string]bool{"t": true, "s:t": true, "mid": true}
	// every sequence of <= 3 element kinds, arrays and maps, standalone and inlined in a parent
	var seqs [][]string
	var rec func(cur []string)
	rec = func(cur []string) {
		seqs = append(seqs, cur)
		if len(cur) == 3 {
			return
		}
		for _, k := range elemKinds {
			rec(append(append([]string{}, cur...), k))
		}
	}
	rec(nil)
	for si, seq := range seqs {
		if si%a.Shards != a.Shard {
			continue
		}
		for _, kind := range []int{-1, 0, 1, 2} { // -1: array; maps with the three digest assignments
			isMap, coll := kind >= 0, kind
			if !isMap {
				coll = 0
			}
			if coll > 0 && len(seq) < 2 {
				continue
			}
			for _, inlined := range []bool{false, true} {
				if inlined && coll > 0 {
					// the library's structural check of a parent judges a nested map's digests with the default
					// digester: colliding sources are copied as top-level containers only
					continue
				}
				res.Evals++
				w := c17CopyWorld(a.T, coll)
				what := fmt.Sprintf("copy of %s [%s] inlined=%v", map[bool]string{false: "array", true: "map"}[isMap], strings.Join(seq, " "), inlined)
				if coll > 0 {
					what += fmt.Sprintf(" colliding keys (mode %d)", coll)
				}
				src, err := w.NewCont(isMap, w.Addr, 42, false)
				if err != nil {
					res.Viols = append(res.Viols, what+": "+err.Error())
					continue
				}
				ok := true
				allPlain := true
				for i, k := range seq {
					if !plain[k] {
						allPlain = false
					}
					var op Op
					if isMap {
						op = Op{K: "mset", C: src.Serial, Key: i, V: k}
					} else {
						op = Op{K: "append", C: src.Serial, V: k}
					}
					if err := w.Apply(op); err != nil {
						res.Viols = append(res.Viols, what+": build: "+err.Error())
						ok = false
						break
					}
				}
				if !ok {
					continue
				}
				if inlined {
					par, err := w.NewCont(false, w.Addr, 43, false)
					if err == nil {
						err = w.Apply(Op{K: "append", C: par.Serial, V: "@", X: src.Serial})
					}
					if err != nil {
						res.Viols = append(res.Viols, what+": attach: "+err.Error())
						continue
					}
				}
				var can, single bool
				if isMap {
					can, single = src.Map.CanCopyNonRefSimple(), src.Map.IsWithinSingleSlab()
				} else {
					can, single = src.Arr.CanCopyNonRefSimple(), src.Arr.IsWithinSingleSlab()
				}
				if coll > 0 && w.St.Deltas() != 1 {
					// a collision group that moved to a slab of its own: the map is one data slab holding a reference
					single = false
				}
				want := single && allPlain
				if can != want {
					res.Viols = append(res.Viols, fmt.Sprintf("%s: CanCopyNonRefSimple = %v, want %v (single slab %v, all elements plain %v)", what, can, want, single, allPlain))
					continue
				}
				res.Distinct = append(res.Distinct, HashText(what))
				if !can {
					continue
				}
				res.Counters["copies"]++
				cp := &Cont{IsMap: isMap, TypeID: 42, Table: isMap && w.Digests != nil}
				if isMap {
					m, err := src.Map.CopyNonRefSimple(w.Addr, w.digesterBuilder())
					if err != nil {
						res.Viols = append(res.Viols, what+": CopyNonRefSimple failed although offered: "+err.Error())
						continue
					}
					cp.Map, cp.VID, cp.SID = m, m.ValueID(), m.SlabID()
					cp.Keys = append([]MV(nil), src.Keys...)
					cp.Vals = append([]MV(nil), src.Vals...)
				} else {
					ar, err := src.Arr.CopyNonRefSimple(w.Addr)
					if err != nil {
						res.Viols = append(res.Viols, what+": CopyNonRefSimple failed although offered: "+err.Error())
						continue
					}
					cp.Arr, cp.VID, cp.SID = ar, ar.ValueID(), ar.SlabID()
					cp.Elems = append([]MV(nil), src.Elems...)
				}
				wrapWorld(w, cp)
				if cp.VID == src.VID {
					res.Viols = append(res.Viols, what+": copy shares the source's identity")
					continue
				}
				if len(res.Samples) < 2 {
					res.Samples = append(res.Samples, what)
				}
				// independence: every single operation of a small alphabet on either side
				var muts []Op
				n := len(seq)
				if isMap {
					muts = []Op{{K: "mset", Key: 0, V: "limM+"}, {K: "mset", Key: 50, V: "t"}, {K: "mremove", Key: 0}, {K: "pop"}, {K: "settype", N: 77}}
				} else {
					muts = []Op{{K: "append", V: "limA+"}, {K: "insert", I: 0, V: "t"}, {K: "set", I: 0, V: "mid"}, {K: "remove", I: 0}, {K: "pop"}, {K: "settype", N: 77}}
				}
				for _, side := range []int{src.Serial, cp.Serial} {
					for _, mu := range muts {
						if n == 0 && (mu.K == "set" || mu.K == "remove" || mu.K == "mremove" || mu.K == "pop") {
							continue
						}
						if isMap && mu.K == "mset" && mu.Key == 0 && n == 0 {
							continue
						}
						// replay on a fresh copy of this scenario is expensive; apply and undo is not
						// possible, so each mutation runs on its own world built the same way
						res.Evals++
						if msg := c17CopyMutation(a.T, isMap, coll, inlined, seq, side == src.Serial, mu); msg != "" {
							res.Viols = append(res.Viols, what+" then "+mu.String()+": "+msg)
						}
					}
				}
				c17Check(w, what, res)
			}
		}
	}
}

// c17CopyMutation rebuilds source+copy, applies one mutation to one side, and checks that the
// other side's content and registers are unchanged and everything stays valid.
func c17CopyMutation(T uint32, isMap bool, coll int, inlined bool, seq []string, onSource bool, mu Op) string {
	w := c17CopyWorld(T, coll)
	src, err := w.NewCont(isMap, w.Addr, 42, false)
	if err != nil {
		return err.Error()
	}
	for i, k := range seq {
		op := Op{K: "append", C: src.Serial, V: k}
		if isMap {
			op = Op{K: "mset", C: src.Serial, Key: i, V: k}
		}
		if err := w.Apply(op); err != nil {
			return err.Error()
		}
	}
	if inlined {
		par, err := w.NewCont(false, w.Addr, 43, false)
		if err == nil {
			err = w.Apply(Op{K: "append", C: par.Serial, V: "@", X: src.Serial})
		}
		if err != nil {
			return err.Error()
		}
	}
	cp := &Cont{IsMap: isMap, TypeID: 42, Table: isMap && w.Digests != nil}
	if isMap {
		m, err := src.Map.CopyNonRefSimple(w.Addr, w.digesterBuilder())
		if err != nil {
			return err.Error()
		}
		cp.Map, cp.VID, cp.SID = m, m.ValueID(), m.SlabID()
		cp.Keys = append([]MV(nil), src.Keys...)
		cp.Vals = append([]MV(nil), src.Vals...)
	} else {
		ar, err := src.Arr.CopyNonRefSimple(w.Addr)
		if err != nil {
			return err.Error()
		}
		cp.Arr, cp.VID, cp.SID = ar, ar.ValueID(), ar.SlabID()
		cp.Elems = append([]MV(nil), src.Elems...)
	}
	wrapWorld(w, cp)
	// registers of the untouched side before
	if err := w.Commit(1, false); err != nil {
		return err.Error()
	}
	other := cp
	target := src
	if !onSource {
		other, target = src, cp
	}
	otherRoot := other.SID
	if other.Parent != nil {
		otherRoot = other.Parent.SID
	}
	before := append([]byte(nil), w.Ledger.Regs[otherRoot]...)
	mu.C = target.Serial
	if err := w.Apply(mu); err != nil {
		return err.Error()
	}
	if err := w.DeepCheck(); err != nil {
		return "content after mutating one side: " + err.Error()
	}
	if err := w.Commit(1, false); err != nil {
		return err.Error()
	}
	if !bytes.Equal(before, w.Ledger.Regs[otherRoot]) {
		return fmt.Sprintf("register %s of the untouched side changed", otherRoot)
	}
	if err := RunOracles(w, fullOracles); err != nil {
		return err.Error()
	}
	return ""
}

// ---- byte conversion ----------------------------------------------------------------------------

func c17Bytes(a c17Arg, res *TaskResult) {
	for n := a.From; n <= a.To; n++ {
		if n%a.Shards != a.Shard {
			continue
		}
		data := make([]byte, n)
		for i := range data {
			data[i] = byte(i*7 + 3) // mixes values < 24 (1-byte CBOR) and >= 24 (2-byte CBOR)
		}
		if n%3 == 1 {
			for i := range data {
				data[i] = byte(i % 24) // all small: estimated size over-estimates
			}
		}
		for _, est := range []uint32{0, 3, 4, 5} {
			res.Evals++
			w := NewWorld(a.T)
			what := fmt.Sprintf("ByteSliceToByteArray(len %d, estimated size %d)", n, est)
			arr, err := atree.ByteSliceToByteArray[tu.Uint8Value](w.St, w.Addr, tu.NewSimpleTypeInfo(42), data, est)
			if err != nil {
				res.Viols = append(res.Viols, what+" failed: "+err.Error())
				continue
			}
			c := &Cont{TypeID: 42, Arr: arr, VID: arr.ValueID(), SID: arr.SlabID()}
			for _, b := range data {
				c.Elems = append(c.Elems, U8{b})
			}
			back, err := atree.ByteArrayToByteSlice[tu.Uint8Value](arr)
			if err != nil {
				res.Viols = append(res.Viols, what+": ByteArrayToByteSlice failed: "+err.Error())
				continue
			}
			if !bytes.Equal(back, data) {
				res.Viols = append(res.Viols, what+": round trip differs")
				continue
			}
			if arr.Count() != uint64(n) {
				res.Viols = append(res.Viols, fmt.Sprintf("%s: count %d", what, arr.Count()))
				continue
			}
			for i := 0; i < n; i += 1 + n/7 {
				v, err := arr.Get(uint64(i))
				if err != nil || v != atree.Value(tu.Uint8Value(data[i])) {
					res.Viols = append(res.Viols, fmt.Sprintf("%s: Get(%d) = %v, %v", what, i, v, err))
					break
				}
			}
			wrapWorld(w, c)
			// structural validity exactly as for incrementally built arrays (content compared above)
			if err := RunOracles(w, fullOracles); err != nil {
				res.Viols = append(res.Viols, what+": "+err.Error())
				continue
			}
			if est == 0 {
				txt := w.DoWalk().Text
				res.Distinct = append(res.Distinct, HashText(txt))
			}
			if len(res.Samples) < 2 {
				res.Samples = append(res.Samples, what)
			}
		}
	}
	if a.Shard == 0 {
		// reverse direction on non-byte elements
		res.Evals++
		w := NewWorld(a.T)
		arr, _ := atree.NewArray(w.St, w.Addr, tu.NewSimpleTypeInfo(42))
		arr.Append(tu.Uint8Value(1))
		arr.Append(tu.NewStringValue("x"))
		_, err := atree.ByteArrayToByteSlice[tu.Uint8Value](arr)
		var ue *atree.UnexpectedElementTypeError
		if !errors.As(err, &ue) {
			res.Viols = append(res.Viols, fmt.Sprintf("ByteArrayToByteSlice on a non-byte element returned %v", err))
		}
		empty, _ := atree.NewArray(w.St, w.Addr, tu.NewSimpleTypeInfo(42))
		b, err := atree.ByteArrayToByteSlice[tu.Uint8Value](empty)
		if err != nil || len(b) != 0 {
			res.Viols = append(res.Viols, fmt.Sprintf("ByteArrayToByteSlice(empty) = %v, %v", b, err))
		}
	}
}

// ---- negative streams -----------------------------------------------------------------------------

func c17Negative(a c17Arg, res *TaskResult) {
	// unsorted digests, duplicate keys, zero seed
	mk := func() (*World, *Cont, error) {
		w := NewWorld(a.T)
		w.Digests = NewDigestTable()
		setCollisionLimit(255)
		src, err := buildSourceMap(w, []int{0, 1, 2, 3}, []string{"t"})
		return w, src, err
	}
	feed := func(w *World, seed uint64, keys []int) error {
		i := 0
		_, err := atree.NewMapFromBatchData(w.St, w.Addr, w.digesterBuilder(), tu.NewSimpleTypeInfo(42), CompareValue, GetHashInput, seed,
			func() (atree.Value, atree.Value, error) {
				if i == len(keys) {
					return nil, nil, nil
				}
				k := keys[i]
				i++
				return tu.Uint64Value(uint64(k)), tu.Uint64Value(1), nil
			})
		return err
	}
	{
		res.Evals++
		w, src, err := mk()
		if err != nil {
			res.Herr = err.Error()
			return
		}
		err = feed(w, src.Map.Seed(), []int{0, 2, 1, 3})
		var he *atree.HashError
		if !errors.As(err, &he) {
			res.Viols = append(res.Viols, fmt.Sprintf("NewMapFromBatchData with unsorted digests returned %v, want a hash error", err))
		}
		res.Distinct = append(res.Distinct, "unsorted")
	}
	{
		res.Evals++
		w, src, err := mk()
		if err != nil {
			res.Herr = err.Error()
			return
		}
		err = feed(w, src.Map.Seed(), []int{0, 1, 1, 2})
		var de *atree.DuplicateKeyError
		if !errors.As(err, &de) {
			res.Viols = append(res.Viols, fmt.Sprintf("NewMapFromBatchData with a duplicate key returned %v, want a duplicate-key error", err))
		}
		res.Distinct = append(res.Distinct, "duplicate")
	}
	{
		res.Evals++
		w, _, err := mk()
		if err != nil {
			res.Herr = err.Error()
			return
		}
		err = feed(w, 0, []int{0, 1})
		var se *atree.HashSeedUninitializedError
		if !errors.As(err, &se) {
			res.Viols = append(res.Viols, fmt.Sprintf("NewMapFromBatchData with a zero seed returned %v, want the seed error", err))
		}
		res.Distinct = append(res.Distinct, "zeroseed")
	}
}

func init() {
	RegisterCheck(&CheckDef{ID: "C17", Level: "model_checking", Run: func(r *Run) {
		r.Rule = "exhaustive enumeration on the real bulk APIs: ALL element streams over {3-byte scalar, quarter-slab string, exactly-at-limit string, one-over-limit string} up to length 8 (thorough 10) through NewArrayFromBatchData, and all streams up to length 6 (thorough 7) over {scalar, at-limit string, inlined array, composite map, wrapped standalone array, inlined map}; every length up to 120 (thorough 600) with uniform prefixes and all tail patterns of the last 4 (thorough 5) elements; NewMapFromBatchData from every sequence over 6 value sizes up to length 6 (thorough 8) with keys in digest order, from sources of every size up to 40 (thorough 120) and from every 3-key digest assignment (collision groups), plus unsorted / duplicate / zero-seed streams; CopyNonRefSimple offered <=> single slab of plain elements for every array/map of <= 3 elements over 7 element kinds, standalone and inlined, and after every single mutation of either side the other side's registers are byte-identical; ByteSliceToByteArray for every length 0..L and every estimated-size argument with round trip; every result is checked by content, the in-repo verifiers, the independent structure/size/round-trip/reachability oracles and CheckStorageHealth; states = distinct resulting slab structures"
		r.Assumptions = []string{
			"streams longer than the stated bounds (tens of thousands of elements) are outside the enumeration; the tail-pattern family is what decides the under-full last leaf and last index slab",
		}
		T := uint32(256)
		var args []any
		maxLen := 8
		if r.Thorough() {
			maxLen = 10
		}
		args = append(args, c17Arg{T: T, Mode: "arr-streams", Prefix: nil, MaxLen: 1})
		for _, a := range c17Classes {
			for _, b := range c17Classes {
				args = append(args, c17Arg{T: T, Mode: "arr-streams", Prefix: []string{a, b}, MaxLen: maxLen})
			}
		}
		r.RunTaskGroup("array streams (all, length<=max)", "c17", args)
		args = nil
		nl := 6
		if r.Thorough() {
			nl = 7
		}
		for _, a := range []string{"t", "limA", "A:t", "Mc:t,u5", "s:A:h,h", "M:t"} {
			for _, b := range []string{"t", "limA", "A:t", "Mc:t,u5", "s:A:h,h", "M:t"} {
				args = append(args, c17Arg{T: T, Mode: "arr-streams-nested", Prefix: []string{a, b}, MaxLen: nl})
			}
		}
		r.RunTaskGroup("array streams with nested children (all, length<=max)", "c17", args)
		args = nil
		ml := 6
		if r.Thorough() {
			ml = 8
		}
		for _, a := range mapStreamClasses {
			for _, b := range mapStreamClasses {
				args = append(args, c17Arg{T: T, Mode: "map-streams", Prefix: []string{a, b}, MaxLen: ml})
			}
			args = append(args, c17Arg{T: T, Mode: "map-streams", Prefix: []string{a}, MaxLen: 1})
		}
		r.RunTaskGroup("map value streams in digest order (all, length<=max)", "c17", args)
		shards := 16
		args = nil
		to, tail := 120, 4
		if r.Thorough() {
			to, tail = 600, 5
		}
		for s := 0; s < shards; s++ {
			args = append(args, c17Arg{T: T, Mode: "arr-tails", From: 9, To: to, Tail: tail, Shard: s, Shards: shards})
		}
		r.RunTaskGroup("array streams (every length, all tails)", "c17", args)
		args = nil
		mto := 40
		if r.Thorough() {
			mto = 120
		}
		for s := 0; s < shards; s++ {
			args = append(args, c17Arg{T: T, Mode: "map-batch", From: 0, To: mto, Shard: s, Shards: shards})
		}
		r.RunTaskGroup("map batch from source", "c17", args)
		args = nil
		for s := 0; s < shards; s++ {
			args = append(args, c17Arg{T: T, Mode: "copy", Shard: s, Shards: shards})
		}
		r.RunTaskGroup("copy single-slab containers", "c17", args)
		args = nil
		bto := 150
		if r.Thorough() {
			bto = 700
		}
		for s := 0; s < shards; s++ {
			args = append(args, c17Arg{T: T, Mode: "bytes", From: 0, To: bto, Shard: s, Shards: shards})
		}
		r.RunTaskGroup("byte slice <-> byte array", "c17", args)
		r.RunTaskGroup("negative streams", "c17", []any{c17Arg{T: T, Mode: "negative"}})
		if r.Thorough() {
			args = nil
			args = append(args, c17Arg{T: 1024, Mode: "arr-streams", Prefix: nil, MaxLen: 6})
			for s := 0; s < shards; s++ {
				args = append(args, c17Arg{T: 1024, Mode: "arr-tails", From: 7, To: 200, Tail: 3, Shard: s, Shards: shards})
				args = append(args, c17Arg{T: 1024, Mode: "bytes", From: 0, To: 1200, Shard: s, Shards: shards})
			}
			r.RunTaskGroup("T=1024: streams, tails, bytes", "c17", args)
		}
	}})
}
