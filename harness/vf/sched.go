//go:build sched

package vf

import (
	"github.com/fxamacker/cbor/v2"
	"bytes"
	"crypto/sha256"
	"encoding/hex"
	"encoding/json"
	"fmt"
	"sort"
	"strings"
	"time"

	"github.com/onflow/atree"
	tu "github.com/onflow/atree/test_utils"
	"github.com/onflow/atree/vsched"
)

// D4: schedule exploration of the instrumented library (C04, C16).

// prepareHook, when set, is called before every controlled execution, outside the controller
// (it builds the state the body then operates on, without adding choice points).
var prepareHook func()

type pointRec struct {
	Kind    string
	N       int
	Running bool
}

type execution struct {
	points  []pointRec
	choices []int
	obs     string
	err     string
}

type schedBounds struct {
	Preempt  int `json:"preempt"`
	MapOrder int `json:"maporder"`
}

// runOnce executes body under the controller replaying prefix, default choice 0 afterwards.
func runOnce(body func() string, prefix []int) (x execution, diverged string) {
	if prepareHook != nil {
		prepareHook()
	}
	i := 0
	chooser := func(p vsched.Point) int {
		c := 0
		if i < len(prefix) {
			c = prefix[i]
			if c >= p.N {
				diverged = fmt.Sprintf("replay diverged at point %d: choice %d of %d options (%s)", i, c, p.N, p.Kind)
				c = 0
			}
		}
		i++
		x.points = append(x.points, pointRec{p.Kind, p.N, p.Running})
		x.choices = append(x.choices, c)
		return c
	}
	var obs string
	res := vsched.Run(func() { obs = body() }, chooser)
	x.obs = obs
	x.err = res.Err
	return x, diverged
}

func altCost(p pointRec, alt int) (preempt, mo int) {
	switch p.Kind {
	case "thread":
		if p.Running {
			return 1, 0
		}
		return 0, 0
	case "maporder":
		return 0, 1
	}
	return 0, 0
}

type schedStats struct {
	Execs     int
	MaxPoints int
	Outcomes  map[string]int
	Viols     []string
	Samples   []string
	Capped    bool
}

// exploreSchedules enumerates all executions whose deviations fit the bounds (iterative
// context bounding: a deviation is a preemption or a non-canonical map order).
func exploreSchedules(body func() string, check func(x execution) string, b schedBounds, prefix []int, deadline time.Time, st *schedStats) {
	if st.Capped || len(st.Viols) > 3 {
		return
	}
	if !deadline.IsZero() && time.Now().After(deadline) {
		st.Capped = true
		return
	}
	x, div := runOnce(body, prefix)
	st.Execs++
	if len(x.points) > st.MaxPoints {
		st.MaxPoints = len(x.points)
	}
	if div != "" {
		st.Viols = append(st.Viols, "HARNESS: "+div)
		return
	}
	st.Outcomes[HashText(x.obs+"|"+x.err)]++
	if msg := check(x); msg != "" {
		st.Viols = append(st.Viols, fmt.Sprintf("%s — schedule %v", msg, x.choices))
		return
	}
	if len(st.Samples) < 2 {
		st.Samples = append(st.Samples, fmt.Sprintf("schedule %v (%d choice points)", x.choices, len(x.points)))
	}
	// cost of the prefix
	usedP, usedM := 0, 0
	for i := 0; i < len(prefix) && i < len(x.points); i++ {
		if x.choices[i] != 0 {
			p, m := altCost(x.points[i], x.choices[i])
			usedP += p
			usedM += m
		}
	}
	for i := len(prefix); i < len(x.points); i++ {
		p := x.points[i]
		for alt := 1; alt < p.N; alt++ {
			cp, cm := altCost(p, alt)
			if usedP+cp > b.Preempt || usedM+cm > b.MapOrder {
				continue
			}
			np := append(append([]int{}, x.choices[:i]...), alt)
			exploreSchedules(body, check, b, np, deadline, st)
		}
	}
}

// ---- scenarios -----------------------------------------------------------------------------------

type schedArg struct {
	Scenario string      `json:"scenario"`
	Hist     int         `json:"hist"`
	Prefix   int         `json:"prefix"`
	Relaxed  bool        `json:"relaxed"`
	Workers  int         `json:"workers"`
	Variant  int         `json:"variant"`
	Bounds   schedBounds `json:"bounds"`
	Budget   int         `json:"budget_s"`
	Strict   bool        `json:"strict"` // C04: compare ledger write order exactly for the deterministic commit
	Ops      []Op        `json:"ops,omitempty"`   // commit scenario over an explicit history instead of a corpus history
	Batch    [][]Op      `json:"batch,omitempty"` // several explicit histories: each is run with both commits
	Supp     bool        `json:"supp,omitempty"`  // supplementary scenario (very many goroutines): explored under its budget, reported separately
}

func obsLedger(l *Ledger, from int, ordered bool) string {
	var sb strings.Builder
	for _, id := range l.SortedIDs() {
		h := sha256.Sum256(l.Regs[id])
		fmt.Fprintf(&sb, "%s=%s;", id, hex.EncodeToString(h[:6]))
	}
	sb.WriteString("|log:")
	var calls []string
	for _, c := range l.Log[from:] {
		calls = append(calls, fmt.Sprintf("%s:%s:%v", c.Kind, c.ID, c.OK))
	}
	if !ordered {
		sort.Strings(calls)
	}
	sb.WriteString(strings.Join(calls, ","))
	return sb.String()
}

func obsLayers(st *atree.PersistentSlabStorage) string {
	cache, deltas := atree.VerifStorageLayers(st)
	render := func(m map[atree.SlabID]atree.Slab) string {
		var ids []atree.SlabID
		for id := range m {
			ids = append(ids, id)
		}
		SortIDs(ids)
		var sb strings.Builder
		for _, id := range ids {
			s := m[id]
			if s == nil {
				fmt.Fprintf(&sb, "%s=nil;", id)
				continue
			}
			b, err := atree.EncodeSlab(s, encMode)
			if err != nil {
				fmt.Fprintf(&sb, "%s=ERR;", id)
				continue
			}
			h := sha256.Sum256(b)
			fmt.Fprintf(&sb, "%s=%s;", id, hex.EncodeToString(h[:6]))
		}
		return sb.String()
	}
	return "cache:" + render(cache) + "|deltas:" + render(deltas)
}

// failingValue is a value whose storable cannot be encoded (to drive the commit's error path).
type failingValue struct{}
type failingStorable struct{}

func (failingValue) Storable(atree.SlabStorage, atree.Address, uint32) (atree.Storable, error) {
	return failingStorable{}, nil
}
func (failingStorable) Encode(*atree.Encoder) error              { return fmt.Errorf("injected encode failure") }
func (failingStorable) ByteSize() uint32                         { return 3 }
func (failingStorable) StoredValue(atree.SlabStorage) (atree.Value, error) { return failingValue{}, nil }
func (failingStorable) ChildStorables() []atree.Storable         { return nil }
func (failingStorable) CanCopyNonRefSimple() bool                { return false }
func (failingStorable) CopyNonRefSimple() (atree.Storable, error) { return nil, fmt.Errorf("no") }

// commitScenario returns a body (run under the controller) and the baseline observation.
// failTI is a type info whose encoding fails (a caller-supplied component, like failingValue).
type failTI struct{}

func (failTI) Encode(*cbor.StreamEncoder) error { return fmt.Errorf("injected type-info encode failure") }
func (failTI) IsComposite() bool                { return false }
func (failTI) Copy() atree.TypeInfo             { return failTI{} }

func commitScenario(a schedArg) (body func() string, baseline string, err error) {
	var ops []Op
	if a.Ops != nil {
		ops = a.Ops
	} else {
		ops = c14Histories()[a.Hist]
		if a.Prefix > 0 && a.Prefix < len(ops) {
			ops = ops[:a.Prefix]
		}
	}
	mk := func() (*World, error) {
		w, err := buildHistory(256, ops)
		if err != nil {
			return nil, err
		}
		if a.Variant == 1 {
			// one slab that fails to encode
			if err := w.Conts[2].Arr.Append(failingValue{}); err != nil {
				return nil, err
			}
		}
		if a.Variant == 2 {
			// a map slab and an array slab that fail to encode; the body removes them after the
			// failed commit and commits again (error paths must leave the shared pools usable)
			if _, err := w.Conts[1].Map.Set(CompareValue, GetHashInput, tu.Uint64Value(50), failingValue{}); err != nil {
				return nil, err
			}
			if err := w.Conts[2].Arr.Append(failingValue{}); err != nil {
				return nil, err
			}
		}
		if a.Variant == 3 {
			// a root array and a root map whose TYPE INFO cannot be encoded (the root's extra data fails after the
			// elements were encoded); the body removes them after the failed commit and commits again
			fa, err := atree.NewArray(w.St, w.Addr, failTI{})
			if err != nil {
				return nil, err
			}
			if err := fa.Append(tu.Uint64Value(1)); err != nil {
				return nil, err
			}
			fm, err := atree.NewMap(w.St, w.Addr, atree.NewDefaultDigesterBuilder(), failTI{})
			if err != nil {
				return nil, err
			}
			if _, err := fm.Set(CompareValue, GetHashInput, tu.Uint64Value(1), tu.Uint64Value(2)); err != nil {
				return nil, err
			}
			// ... and a root whose INLINED child's type info cannot be encoded (the shared table of inlined extra data)
			holder, err := atree.NewArray(w.St, w.Addr, tu.NewSimpleTypeInfo(9))
			if err != nil {
				return nil, err
			}
			child, err := atree.NewArray(w.St, w.Addr, failTI{})
			if err != nil {
				return nil, err
			}
			if err := holder.Append(child); err != nil {
				return nil, err
			}
			w.failRoots = []atree.SlabID{fa.SlabID(), fm.SlabID(), holder.SlabID()}
		}
		return w, nil
	}
	var prepared *World
	var prepErr error
	prepareHook = func() { prepared, prepErr = mk() }
	run := func(workers int) (string, error) {
		w, err := prepared, prepErr
		if w == nil && err == nil {
			w, err = mk()
		}
		prepared = nil
		if err != nil {
			return "", err
		}
		if a.Variant == 2 || a.Variant == 3 {
			first := w.commitRaw(workers, a.Relaxed)
			if first == nil {
				return "first commit succeeded although two slabs cannot be encoded", nil
			}
			if a.Variant == 3 {
				for _, id := range w.failRoots {
					if err := w.St.Remove(id); err != nil {
						return "", err
					}
				}
				// dirty a few more slabs so that several workers encode at the same time
				for _, o := range []Op{{K: "append", C: 0, V: "t"}, {K: "mset", C: 1, Key: 7, V: "t"}, {K: "append", C: 2, V: "t"}} {
					if err := w.Apply(o); err != nil {
						return "", err
					}
				}
			} else {
				if _, _, err := w.Conts[1].Map.Remove(CompareValue, GetHashInput, tu.Uint64Value(50)); err != nil {
					return "", err
				}
				if _, err := w.Conts[2].Arr.Remove(w.Conts[2].Arr.Count() - 1); err != nil {
					return "", err
				}
			}
			// drop whatever the failed (relaxed) commit already wrote from the comparison: start the log here
			from := len(w.Ledger.Log)
			cerr := w.commitRaw(workers, a.Relaxed)
			var regs strings.Builder
			for _, id := range w.Ledger.SortedIDs() {
				fmt.Fprintf(&regs, "%s=%x;", id, w.Ledger.Regs[id])
			}
			_ = from
			return fmt.Sprintf("second err=%v|%s|%s", cerr != nil, regs.String(), obsLayers(w.St)), nil
		}
		from := len(w.Ledger.Log)
		cerr := w.commitRaw(workers, a.Relaxed)
		ordered := !a.Relaxed
		o := fmt.Sprintf("err=%v|", cerr != nil)
		if a.Variant == 1 && a.Relaxed {
			// partial progress of the relaxed commit is schedule-dependent by design: invariants only
			if cerr == nil {
				return "relaxed commit succeeded although a slab cannot be encoded", nil
			}
			return o + "relaxed-partial", nil
		}
		return o + obsLedger(w.Ledger, from, ordered) + "|" + obsLayers(w.St), nil
	}
	prepared, prepErr = mk()
	baseline, err = run(1)
	if err != nil {
		return nil, "", err
	}
	body = func() string {
		o, err := run(a.Workers)
		if err != nil {
			return "HARNESS:" + err.Error()
		}
		return o
	}
	return body, baseline, nil
}

func preloadScenario(a schedArg) (func() string, string, error) {
	// 12 registers: one array with 6 leaves + root, map with a few slabs
	mk := func() (*Ledger, error) {
		w := NewWorld(256)
		w.KeyOf = KeyOfDefault
		ops := []Op{{K: "newarr"}, {K: "newmap"}}
		for i := 0; i < 10; i++ {
			ops = append(ops, Op{K: "append", C: 0, V: "limA"})
		}
		for i := 0; i < 8; i++ {
			ops = append(ops, Op{K: "mset", C: 1, Key: i, V: "limM"})
		}
		for _, op := range ops {
			if err := w.Apply(op); err != nil {
				return nil, err
			}
		}
		if err := w.Commit(1, false); err != nil {
			return nil, err
		}
		return w.Ledger, nil
	}
	l, err := mk()
	if err != nil {
		return nil, "", err
	}
	if len(l.Regs) < 11 {
		return nil, "", fmt.Errorf("preload scenario has only %d registers", len(l.Regs))
	}
	run := func(workers int) string {
		ll := l.Snapshot()
		if a.Variant == 1 {
			// one undecodable register: the early-return path
			ids := ll.SortedIDs()
			ll.Regs[ids[len(ids)/2]] = []byte{0x10, 0x80, 0xff}
		}
		st := NewStorage(ll)
		ids := ll.SortedIDs()
		err := st.BatchPreload(ids, workers)
		if a.Variant == 1 {
			return fmt.Sprintf("err=%v", err != nil)
		}
		return fmt.Sprintf("err=%v|%s", err != nil, obsLayers(st))
	}
	return func() string { return run(a.Workers) }, run(1), nil
}

// clientBodies returns independent clients (own storage, own containers) whose operations
// collide on the process-wide pools, and the observation of each when run alone.
func clientBody(kind int) func() string {
	return func() string {
		var sb strings.Builder
		l := NewLedger()
		st := NewStorage(l)
		switch kind {
		case 0:
			// map with keys colliding on level 0 and 1 (digester obtained, re-used one level deeper, returned)
			dt := NewDigestTable()
			dt.Table[0] = [4]uint64{5, 5, 1, 1}
			dt.Table[1] = [4]uint64{5, 5, 2, 2}
			dt.Table[2] = [4]uint64{5, 6, 1, 1}
			_ = dt
			m, err := atree.NewMap(st, DefaultAddr, atree.NewDefaultDigesterBuilder(), tu.NewSimpleTypeInfo(1))
			if err != nil {
				return "ERR " + err.Error()
			}
			for k := 0; k < 3; k++ {
				if _, err := m.Set(CompareValue, GetHashInput, tu.Uint64Value(uint64(k)), tu.NewStringValue(fmt.Sprintf("v%d", k))); err != nil {
					return "ERR " + err.Error()
				}
			}
			for k := 0; k < 4; k++ {
				v, err := m.Get(CompareValue, GetHashInput, tu.Uint64Value(uint64(k)))
				fmt.Fprintf(&sb, "get%d=%v,%v;", k, v, err != nil)
			}
		case 1:
			// array with inlined children sharing type info; encode through a commit
			a, err := atree.NewArray(st, DefaultAddr, tu.NewSimpleTypeInfo(2))
			if err != nil {
				return "ERR " + err.Error()
			}
			for i := 0; i < 2; i++ {
				ch, err := atree.NewArray(st, DefaultAddr, tu.NewSimpleTypeInfo(7))
				if err != nil {
					return "ERR " + err.Error()
				}
				ch.Append(tu.Uint64Value(uint64(i)))
				if err := a.Append(ch); err != nil {
					return "ERR " + err.Error()
				}
			}
			if err := st.FastCommit(1); err != nil {
				return "ERR " + err.Error()
			}
		case 2:
			// map holding composite maps (compact encoding; type-id buffer pool) + commit
			m, err := atree.NewMap(st, DefaultAddr, atree.NewDefaultDigesterBuilder(), tu.NewSimpleTypeInfo(3))
			if err != nil {
				return "ERR " + err.Error()
			}
			for i := 0; i < 2; i++ {
				ch, err := atree.NewMap(st, DefaultAddr, atree.NewDefaultDigesterBuilder(), CompTI{9})
				if err != nil {
					return "ERR " + err.Error()
				}
				ch.Set(CompareValue, GetHashInput, tu.NewStringValue("f0"), tu.Uint64Value(uint64(i)))
				if _, err := m.Set(CompareValue, GetHashInput, tu.Uint64Value(uint64(i)), ch); err != nil {
					return "ERR " + err.Error()
				}
			}
			if err := st.NondeterministicFastCommit(1); err != nil {
				return "ERR " + err.Error()
			}
		case 4:
			// keys colliding on the first level under the DEFAULT digester: deeper levels come from
			// the pooled digester object (obtained, used one level deeper, returned)
			m, err := atree.NewMap(st, DefaultAddr, atree.NewDefaultDigesterBuilder(), tu.NewSimpleTypeInfo(4))
			if err != nil {
				return "ERR " + err.Error()
			}
			for k := 300; k < 303; k++ {
				if _, err := m.Set(CompareValue, GetHashInput, ToAtree(KeyOfDefault(k)), tu.Uint64Value(uint64(k))); err != nil {
					return "ERR " + err.Error()
				}
			}
			for k := 300; k < 304; k++ {
				v, err := m.Get(CompareValue, GetHashInput, ToAtree(KeyOfDefault(k)))
				fmt.Fprintf(&sb, "get%d=%v,%v;", k, v, err != nil)
			}
			if _, _, err := m.Remove(CompareValue, GetHashInput, ToAtree(KeyOfDefault(301))); err != nil {
				return "ERR " + err.Error()
			}
			if err := st.FastCommit(1); err != nil {
				return "ERR " + err.Error()
			}
		case 5:
			// a map built in bulk from another map's enumeration (one digester per element, the colliding-key
			// pair included), then a lookup of every key in the copy and a commit
			src, err := atree.NewMap(st, DefaultAddr, atree.NewDefaultDigesterBuilder(), tu.NewSimpleTypeInfo(5))
			if err != nil {
				return "ERR " + err.Error()
			}
			keys := []atree.Value{tu.Uint64Value(1), ToAtree(KeyOfDefault(300)), ToAtree(KeyOfDefault(301)), tu.NewStringValue("k")}
			for i, k := range keys {
				if _, err := src.Set(CompareValue, GetHashInput, k, tu.Uint64Value(uint64(i))); err != nil {
					return "ERR " + err.Error()
				}
			}
			it, err := src.ReadOnlyIterator()
			if err != nil {
				return "ERR " + err.Error()
			}
			cp, err := atree.NewMapFromBatchData(st, DefaultAddr, atree.NewDefaultDigesterBuilder(), tu.NewSimpleTypeInfo(5), CompareValue, GetHashInput, src.Seed(),
				func() (atree.Value, atree.Value, error) { return it.Next() })
			if err != nil {
				return "ERR " + err.Error()
			}
			for i, k := range keys {
				v, err := cp.Get(CompareValue, GetHashInput, k)
				fmt.Fprintf(&sb, "cp%d=%v,%v;", i, v, err != nil)
			}
			if err := st.FastCommit(1); err != nil {
				return "ERR " + err.Error()
			}
		case 3:
			// a client whose commit is itself parallel
			a, err := atree.NewArray(st, DefaultAddr, tu.NewSimpleTypeInfo(2))
			if err != nil {
				return "ERR " + err.Error()
			}
			b, _ := atree.NewArray(st, OtherAddr, tu.NewSimpleTypeInfo(2))
			a.Append(tu.NewStringValue("x"))
			b.Append(tu.NewStringValue("y"))
			if err := st.FastCommit(2); err != nil {
				return "ERR " + err.Error()
			}
		}
		for _, id := range l.SortedIDs() {
			fmt.Fprintf(&sb, "%s=%x;", id, l.Regs[id])
		}
		return sb.String()
	}
}

var clientSets = [][]int{{0, 0}, {0, 1}, {1, 1}, {1, 2}, {2, 2}, {0, 2}, {0, 1, 2}, {1, 3}, {0, 3}, {2, 3}, {4, 4}, {4, 0}, {4, 2}, {4, 3}, {5, 5}, {5, 4}, {5, 1}}

func clientsScenario(a schedArg) (func() string, string, error) {
	set := clientSets[a.Variant%len(clientSets)]
	var solo []string
	for _, k := range set {
		solo = append(solo, clientBody(k)())
	}
	baseline := strings.Join(solo, "\n")
	body := func() string {
		outs := make([]string, len(set))
		var wg vsched.WaitGroup
		wg.Add(len(set))
		for i, k := range set {
			i, f := i, clientBody(k)
			vsched.Go(func() {
				defer wg.Done()
				outs[i] = f()
			})
		}
		wg.Wait()
		return strings.Join(outs, "\n")
	}
	return body, baseline, nil
}

// arrayShiftScenario: the two map-ordered loops of array.go (index shifting of tracked children).
func arrayShiftScenario(a schedArg) (func() string, string, error) {
	run := func() string {
		w := NewWorld(256)
		ops := []Op{{K: "newarr"}, {K: "append", V: "A:t"}, {K: "append", V: "A:t"}, {K: "append", V: "A:t"}}
		switch a.Variant % 3 {
		case 0:
			ops = append(ops, Op{K: "insert", I: 0, V: "t"}, Op{K: "insert", I: 2, V: "t"})
		case 1:
			ops = append(ops, Op{K: "remove", I: 0}, Op{K: "insert", I: 1, V: "t"})
		case 2:
			ops = append(ops, Op{K: "insert", I: 1, V: "t"}, Op{K: "remove", I: 0}, Op{K: "remove", I: 1})
		}
		for _, op := range ops {
			if err := w.Apply(op); err != nil {
				return "ERR " + err.Error()
			}
		}
		// mutate every remaining child through its handle, then commit
		for _, c := range w.Conts[1:] {
			if !c.Dead && c.Parent != nil {
				if err := w.Apply(Op{K: "append", C: c.Serial, V: "t"}); err != nil {
					return "ERR " + err.Error()
				}
			}
		}
		if err := w.DeepCheck(); err != nil {
			return "ERR " + err.Error()
		}
		from := 0
		if err := w.Commit(1, false); err != nil {
			return "ERR " + err.Error()
		}
		return obsLedger(w.Ledger, from, true)
	}
	return run, run(), nil
}

func schedTask(raw json.RawMessage) TaskResult {
	var a schedArg
	var res TaskResult
	if err := json.Unmarshal(raw, &a); err != nil {
		res.Herr = err.Error()
		return res
	}
	if len(a.Batch) == 0 {
		return schedOne(a)
	}
	// a batch of explicit histories (states found by an explicit-state search): both commits each
	res.Counters = map[string]int{}
	for _, ops := range a.Batch {
		for _, relaxed := range []bool{false, true} {
			a2 := a
			a2.Batch, a2.Ops, a2.Relaxed = nil, ops, relaxed
			one := schedOne(a2)
			if one.Herr != "" {
				res.Herr = one.Herr
				return res
			}
			res.Evals += one.Evals
			for k, v := range one.Counters {
				if k == "max_choice_points" || k == "distinct_outcomes" {
					if v > res.Counters[k] {
						res.Counters[k] = v
					}
					continue
				}
				res.Counters[k] += v
			}
			if len(res.Samples) < 2 {
				res.Samples = append(res.Samples, one.Samples...)
			}
			res.Viols = append(res.Viols, one.Viols...)
			res.Distinct = append(res.Distinct, one.Distinct...)
			if len(res.Viols) > 3 {
				return res
			}
		}
	}
	return res
}

func schedOne(a schedArg) TaskResult {
	var res TaskResult
	atree.VerifSetThreshold(256)
	prepareHook = nil
	var body func() string
	var baseline string
	var err error
	switch a.Scenario {
	case "commit":
		body, baseline, err = commitScenario(a)
	case "preload":
		body, baseline, err = preloadScenario(a)
	case "clients":
		body, baseline, err = clientsScenario(a)
	case "arrayshift":
		body, baseline, err = arrayShiftScenario(a)
	case "toy-lostupdate", "toy-useafterput":
		body, baseline = toyScenario(a.Scenario)
	default:
		res.Herr = "unknown scenario " + a.Scenario
		return res
	}
	if err != nil {
		if v, ok := err.(*Violation); ok {
			// an operation of the scenario's history misbehaves before any schedule is explored
			res.Evals = 1
			res.Viols = append(res.Viols, fmt.Sprintf("%s hist=%d: while building the scenario: %s", a.Scenario, a.Hist, v.Msg))
			return res
		}
		res.Herr = err.Error()
		return res
	}
	name := fmt.Sprintf("%s hist=%d[:%d] relaxed=%v workers=%d variant=%d bounds=%+v", a.Scenario, a.Hist, a.Prefix, a.Relaxed, a.Workers, a.Variant, a.Bounds)
	if a.Ops != nil {
		name = fmt.Sprintf("%s history [%s] relaxed=%v workers=%d bounds=%+v", a.Scenario, OpsString(a.Ops), a.Relaxed, a.Workers, a.Bounds)
		if strings.Contains(baseline, "|log:|") {
			// nothing owned is pending at this state: the commit makes no ledger call
			res.Counters = map[string]int{"trivial_histories_skipped": 1}
			return res
		}
	}
	// replay discipline: the first schedule twice, identical observations
	x1, _ := runOnce(body, nil)
	x2, _ := runOnce(body, nil)
	if x1.obs != x2.obs || x1.err != x2.err || len(x1.points) != len(x2.points) {
		res.Herr = fmt.Sprintf("%s: the default schedule is not reproducible (%d vs %d points)", name, len(x1.points), len(x2.points))
		return res
	}
	check := func(x execution) string {
		if x.err != "" {
			return name + ": " + x.err
		}
		if strings.HasPrefix(x.obs, "HARNESS:") {
			return x.obs
		}
		if x.obs != baseline {
			return fmt.Sprintf("%s: observation differs from the one-goroutine execution:\n  got  %s\n  want %s", name, trunc(x.obs), trunc(baseline))
		}
		return ""
	}
	deadline := time.Time{}
	if a.Budget > 0 {
		deadline = time.Now().Add(time.Duration(a.Budget) * time.Second)
	}
	// iterative bounding: all executions with 0 deviations, then 1, ... up to the requested bounds;
	// the highest bound completed within the budget is reported
	res.Counters = map[string]int{}
	completed := -1
	maxB := a.Bounds.Preempt
	if a.Bounds.MapOrder > maxB {
		maxB = a.Bounds.MapOrder
	}
	outcomes := map[string]int{}
	for b := 0; b <= maxB; b++ {
		bb := schedBounds{Preempt: minInt(b, a.Bounds.Preempt), MapOrder: minInt(b, a.Bounds.MapOrder)}
		st := &schedStats{Outcomes: outcomes}
		exploreSchedules(body, check, bb, nil, deadline, st)
		res.Evals += st.Execs
		if st.MaxPoints > res.Counters["max_choice_points"] {
			res.Counters["max_choice_points"] = st.MaxPoints
		}
		res.Viols = append(res.Viols, st.Viols...)
		if b == 0 {
			for _, s := range st.Samples {
				res.Samples = append(res.Samples, name+": "+s)
			}
		}
		if len(st.Viols) > 0 {
			break
		}
		if st.Capped {
			break
		}
		completed = b
	}
	res.Counters["executions"] = res.Evals
	if a.Supp {
		res.Counters["supplementary_scenarios"] = 1
		res.Counters["supplementary_scenario_executions"] = res.Evals
		if completed >= 0 {
			res.Counters[fmt.Sprintf("supplementary_scenarios_completed_bound_%d", completed)] = 1
		}
		res.Counters["distinct_outcomes"] = len(outcomes)
		res.Distinct = append(res.Distinct, name)
		return res
	}
	res.Counters[fmt.Sprintf("scenarios_completed_bound_%d", completed)] = 1
	if completed < maxB && len(res.Viols) == 0 {
		res.Counters["capped_scenarios"] = 1
		res.Counters[fmt.Sprintf("capped: %s: completed bound %d, %d executions, %d choice points", name, completed, res.Evals, res.Counters["max_choice_points"])] = 1
	}
	res.Counters["distinct_outcomes"] = len(outcomes)
	res.Distinct = append(res.Distinct, name)
	return res
}

func minInt(a, b int) int {
	if a < b {
		return a
	}
	return b
}

func trunc(s string) string {
	if len(s) > 700 {
		return s[:700] + "…"
	}
	return s
}

func init() { RegisterTask("sched", schedTask) }

// ---- toys: the engine must find these ----------------------------------------------------------

func toyScenario(kind string) (func() string, string) {
	switch kind {
	case "toy-lostupdate":
		return func() string {
			x := 0
			var wg vsched.WaitGroup
			wg.Add(2)
			for i := 0; i < 2; i++ {
				vsched.Go(func() {
					defer wg.Done()
					t := x
					vsched.Yield("between read and write")
					x = t + 1
				})
			}
			wg.Wait()
			return fmt.Sprint(x)
		}, "2"
	default:
		var pool = &vsched.Pool{New: func() any { return new(bytes.Buffer) }}
		return func() string {
			outs := make([]string, 2)
			var wg vsched.WaitGroup
			wg.Add(2)
			for i := 0; i < 2; i++ {
				i := i
				vsched.Go(func() {
					defer wg.Done()
					b := pool.Get().(*bytes.Buffer)
					b.Reset()
					fmt.Fprintf(b, "client%d", i)
					pool.Put(b) // bug: returned before the last use
					vsched.Yield("after put")
					outs[i] = b.String()
				})
			}
			wg.Wait()
			return strings.Join(outs, ",")
		}, "client0,client1"
	}
}

func selfCheckEngine(r *Run) bool {
	for _, toy := range []string{"toy-lostupdate", "toy-useafterput"} {
		res, err := r.Pool.RunTasks("sched", []any{schedArg{Scenario: toy, Bounds: schedBounds{Preempt: 1}}})
		if err != nil {
			r.HarnessErr = err
			return false
		}
		if len(res[0].Viols) == 0 {
			r.HarnessErr = fmt.Errorf("engine self-check failed: %s not found within preemption bound 1 (%d executions)", toy, res[0].Evals)
			return false
		}
		fmt.Printf("  engine self-check: %s found after %d executions\n", toy, res[0].Evals)
	}
	return true
}
