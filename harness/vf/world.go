package vf

import (
	"errors"
	"fmt"
	"reflect"
	"strings"

	"github.com/fxamacker/circlehash"
	"github.com/onflow/atree"
	tu "github.com/onflow/atree/test_utils"
)

// Violation is a property violation found by an oracle.
type Violation struct {
	Msg string
}

func (v *Violation) Error() string { return v.Msg }

func violf(format string, a ...any) *Violation {
	return &Violation{Msg: asciiSafe(fmt.Sprintf(format, a...))}
}

// asciiSafe escapes bytes outside printable ASCII (messages travel through JSON between processes
// and are compared byte for byte on replay).
func asciiSafe(s string) string {
	clean := true
	for i := 0; i < len(s); i++ {
		if (s[i] < 0x20 && s[i] != '\n' && s[i] != '\t') || s[i] >= 0x7f {
			clean = false
			break
		}
	}
	if clean {
		return s
	}
	var sb strings.Builder
	for i := 0; i < len(s); i++ {
		c := s[i]
		if (c < 0x20 && c != '\n' && c != '\t') || c >= 0x7f {
			fmt.Fprintf(&sb, "\\x%02x", c)
		} else {
			sb.WriteByte(c)
		}
	}
	return sb.String()
}

// Op is one step of a history.  It is plain data so that histories can be written to replay files.
type Op struct {
	K   string `json:"k"`             // kind
	C   int    `json:"c,omitempty"`   // target container serial
	I   uint64 `json:"i,omitempty"`   // index / range start
	J   uint64 `json:"j,omitempty"`   // range end / second argument
	V   string `json:"v,omitempty"`   // value class for a new simple value
	X   int    `json:"x,omitempty"`   // serial of a container used as the value (when V == "@")
	Key int    `json:"key,omitempty"` // key number (maps)
	N   int    `json:"n,omitempty"`   // numeric argument (workers, type id, …)
	W   int    `json:"w,omitempty"`   // number of Some wrappers around a container value
	D   bool   `json:"d,omitempty"`   // keep (do not dispose of) a container handed back
	Alt bool   `json:"alt,omitempty"` // operate through the container's second handle
}

func (o Op) String() string {
	var sb strings.Builder
	sb.WriteString(o.K)
	sb.WriteString(fmt.Sprintf("(c%d", o.C))
	switch o.K {
	case "insert", "set", "remove", "get":
		sb.WriteString(fmt.Sprintf(",%d", o.I))
	case "mset", "mget", "mhas", "mremove":
		sb.WriteString(fmt.Sprintf(",k%d", o.Key))
	}
	if o.V == "@" {
		sb.WriteString(fmt.Sprintf(",@c%d", o.X))
		if o.W > 0 {
			sb.WriteString(fmt.Sprintf("w%d", o.W))
		}
	} else if o.V != "" {
		sb.WriteString("," + o.V)
	}
	if o.N != 0 {
		sb.WriteString(fmt.Sprintf(",n=%d", o.N))
	}
	if o.J != 0 {
		sb.WriteString(fmt.Sprintf(",j=%d", o.J))
	}
	if o.D {
		sb.WriteString(",keep")
	}
	if o.Alt {
		sb.WriteString(",alt")
	}
	sb.WriteString(")")
	return sb.String()
}

func OpsString(ops []Op) string {
	ss := make([]string, len(ops))
	for i, o := range ops {
		ss[i] = o.String()
	}
	return strings.Join(ss, " ")
}

// World is one execution: a ledger, a storage over it, the real containers and their models.
type World struct {
	T      uint32
	Ledger *Ledger
	St     *atree.PersistentSlabStorage
	Conts  []*Cont
	Serial int // counter for value contents

	Addr atree.Address

	// Digests, when non-nil, places map keys at chosen digests (see digest.go).
	Digests *DigestTable

	// KeyOf maps key numbers to key model values.
	KeyOf func(n int) MV

	Steps     int
	LastRet   string // rendering of what the last operation returned (for differential oracles)
	Rets      []string
	Commits   int
	// KeyUniverse lists every key any operation of the space may use (for canonical digest names).
	KeyUniverse []MV
	// OpMaps tells which maps the space's operations may address (nil: root maps only).
	OpMaps func(c *Cont) bool

	// TwinBase builds the world the event-free twin history starts from (History is replayed on it).
	TwinBase func() (*World, error)

	// EverCompact: some committed register used the shared compact-map encoding at some commit.
	EverCompact bool

	traceMode bool
	lastShape string
	InnerEvals int // evaluations made inside the state oracle of this world (evidence counter)
	failRoots  []atree.SlabID // roots that cannot be encoded (schedule scenarios)

	// prov: for every live handle object, the operation that produced it and whether its container
	// was stored inline at that moment (facts a parent callback may capture when it is installed).
	prov map[any]string

	// TrackStale keeps pre-detachment handles for stale-handle mutations (C11); FormerOnly, when set by a
	// stale mutation of a container that has since been re-attached elsewhere through another handle,
	// restricts the oracles to the former parent (two handles of one container are otherwise outside the claims).
	TrackStale bool
	FormerOnly *Cont

	TrackCommits bool // keep a model+ledger snapshot at every commit (crash oracle)
	KeyStorage bool // include storage-layer counters in the state key
	StrictErr bool // also compare error categories/types of rejected requests (C18)

	// CommittedConts is a deep copy of the model at the last successful commit (nil: never committed);
	// CommittedLedger is the ledger snapshot taken right after that commit.
	CommittedConts  []*Cont
	CommittedLedger *Ledger

	// History is every operation applied so far (seed included).
	History []Op
}

var DefaultAddr = atree.Address{1, 2, 3, 4, 5, 6, 7, 8}
var OtherAddr = atree.Address{8, 7, 6, 5, 4, 3, 2, 1}

// resetPoolsHook, when the build carries the deterministic pool shim, empties the library's
// process-wide pools; every world then starts from the same (empty) pool state.
var resetPoolsHook func()

func NewWorld(T uint32) *World {
	atree.VerifSetThreshold(T)
	if resetPoolsHook != nil {
		resetPoolsHook()
	}
	l := NewLedger()
	w := &World{
		T:      T,
		Ledger: l,
		St:     NewStorage(l),
		Addr:   DefaultAddr,
		KeyOf:  func(n int) MV { return Scalar{uint64(n)} },
	}
	return w
}

func (w *World) typeInfo(id uint64, comp bool) atree.TypeInfo {
	if comp {
		return CompTI{id}
	}
	return tu.NewSimpleTypeInfo(id)
}

func (w *World) digesterBuilder() atree.DigesterBuilder {
	if w.Digests != nil {
		return w.Digests.Builder()
	}
	return atree.NewDefaultDigesterBuilder()
}

func (w *World) LiveRoots() []*Cont {
	var r []*Cont
	for _, c := range w.Conts {
		if !c.Dead && c.Parent == nil {
			r = append(r, c)
		}
	}
	return r
}

// NewCont creates a standalone container at addr.
func (w *World) NewCont(isMap bool, addr atree.Address, typeID uint64, comp bool) (*Cont, error) {
	return w.newCont(isMap, addr, typeID, comp, true)
}

// builderFor returns the digester builder a map handle must be opened with.
func (w *World) builderFor(c *Cont) atree.DigesterBuilder {
	if c != nil && c.Table && w.Digests != nil {
		return w.Digests.Builder()
	}
	return atree.NewDefaultDigesterBuilder()
}

func (w *World) newCont(isMap bool, addr atree.Address, typeID uint64, comp bool, asRoot bool) (*Cont, error) {
	c := &Cont{Serial: len(w.Conts), IsMap: isMap, TypeID: typeID, Comp: comp}
	c.Table = isMap && asRoot && w.Digests != nil
	if isMap {
		m, err := atree.NewMap(w.St, addr, w.builderFor(c), w.typeInfo(typeID, comp))
		if err != nil {
			return nil, violf("NewMap failed: %v", err)
		}
		c.Map = m
		c.VID = m.ValueID()
		c.SID = m.SlabID()
	} else {
		a, err := atree.NewArray(w.St, addr, w.typeInfo(typeID, comp))
		if err != nil {
			return nil, violf("NewArray failed: %v", err)
		}
		c.Arr = a
		c.VID = a.ValueID()
		c.SID = a.SlabID()
	}
	w.Conts = append(w.Conts, c)
	return c, nil
}

// childPos finds child in parent's model.
func childPos(p *Cont, child *Cont) int {
	if p.IsMap {
		for i, v := range p.Vals {
			if u, _ := Unwrap(v); u == MV(child) {
				return i
			}
		}
		return -1
	}
	for i, v := range p.Elems {
		if u, _ := Unwrap(v); u == MV(child) {
			return i
		}
	}
	return -1
}

func unwrapReal(v atree.Value) atree.Value {
	for {
		s, ok := v.(tu.SomeValue)
		if !ok {
			return v
		}
		v = s.Value
	}
}

// EnsureHandle (re-)obtains a handle for c: roots by their ID, children by lookup through the parent.
func (w *World) EnsureHandle(c *Cont) error {
	if c.Dead {
		return fmt.Errorf("harness: container c%d is dead", c.Serial)
	}
	if c.IsMap && c.Map != nil || !c.IsMap && c.Arr != nil {
		return nil
	}
	if c.Parent == nil {
		if c.IsMap {
			m, err := atree.NewMapWithRootID(w.St, c.SID, w.builderFor(c))
			if err != nil {
				return violf("reopen map c%d by root id %s failed: %v", c.Serial, c.SID, err)
			}
			c.Map = m
		} else {
			a, err := atree.NewArrayWithRootID(w.St, c.SID)
			if err != nil {
				return violf("reopen array c%d by root id %s failed: %v", c.Serial, c.SID, err)
			}
			c.Arr = a
		}
		return nil
	}
	return w.Reget(c)
}

// Reget obtains a fresh handle to an attached child by lookup through its parent.
func (w *World) Reget(c *Cont) error {
	p := c.Parent
	if p == nil {
		return fmt.Errorf("harness: reget of non-attached c%d", c.Serial)
	}
	if err := w.EnsureHandle(p); err != nil {
		return err
	}
	pos := childPos(p, c)
	if pos < 0 {
		return fmt.Errorf("harness: c%d not found in model parent c%d", c.Serial, p.Serial)
	}
	var v atree.Value
	var err error
	if p.IsMap {
		v, err = p.Map.Get(CompareValue, GetHashInput, ToAtree(p.Keys[pos]))
	} else {
		v, err = p.Arr.Get(uint64(pos))
	}
	if err != nil {
		return violf("lookup of child c%d through parent c%d failed: %v", c.Serial, p.Serial, err)
	}
	v = unwrapReal(v)
	switch h := v.(type) {
	case *atree.Array:
		if c.IsMap {
			return violf("lookup of child c%d returned an array, model has a map", c.Serial)
		}
		if h.ValueID() != c.VID {
			return violf("lookup of child c%d returned value id %s, want %s", c.Serial, h.ValueID(), c.VID)
		}
		c.Arr = h
	case *atree.OrderedMap:
		if !c.IsMap {
			return violf("lookup of child c%d returned a map, model has an array", c.Serial)
		}
		if h.ValueID() != c.VID {
			return violf("lookup of child c%d returned value id %s, want %s", c.Serial, h.ValueID(), c.VID)
		}
		c.Map = h
	default:
		return violf("lookup of child c%d returned %T", c.Serial, v)
	}
	w.dropDescendantHandles(c)
	return nil
}

// dropDescendantHandles enforces the one-handle discipline transitively: a handle to a nested
// container is tied (through its parent callback and the parent handle's private table of tracked
// children) to the parent handle it was obtained through.  When the harness replaces c's handle,
// handles of c's descendants obtained through the old one are abandoned and re-obtained lazily
// through the new one.
func (w *World) dropDescendantHandles(c *Cont) {
	vals := c.Elems
	if c.IsMap {
		vals = c.Vals
	}
	for _, v := range vals {
		if u, _ := Unwrap(v); u != nil {
			if ch, ok := u.(*Cont); ok {
				ch.Arr, ch.Map = nil, nil
				w.dropDescendantHandles(ch)
			}
		}
	}
}

// ---------------------------------------------------------------------------------------------
// Comparison of real values with model values (read-only: uses only read-only iterators).

func (w *World) CmpValue(real atree.Value, m MV) error {
	switch m := m.(type) {
	case Scalar:
		r, ok := real.(tu.Uint64Value)
		if !ok || uint64(r) != m.N {
			return violf("got %T(%v), want scalar %d", real, real, m.N)
		}
	case U8:
		r, ok := real.(tu.Uint8Value)
		if !ok || uint8(r) != m.N {
			return violf("got %T(%v), want byte %d", real, real, m.N)
		}
	case Str:
		r, ok := real.(tu.StringValue)
		if !ok || r.String() != m.S {
			return violf("got %T(%.20v…), want string %s", real, real, MVString(m))
		}
	case Bytes:
		r, ok := real.(BytesValue)
		if !ok || string(r) != m.B {
			return violf("got %T(%v), want %s", real, real, MVString(m))
		}
	case Some:
		r, ok := real.(tu.SomeValue)
		if !ok {
			return violf("got %T, want some(…)", real)
		}
		return w.CmpValue(r.Value, m.In)
	case *Cont:
		switch r := real.(type) {
		case *atree.Array:
			if m.IsMap {
				return violf("got array, want map c%d", m.Serial)
			}
			if r.ValueID() != m.VID {
				return violf("array c%d value id %s, want %s", m.Serial, r.ValueID(), m.VID)
			}
			return w.CmpArray(r, m)
		case *atree.OrderedMap:
			if !m.IsMap {
				return violf("got map, want array c%d", m.Serial)
			}
			if r.ValueID() != m.VID {
				return violf("map c%d value id %s, want %s", m.Serial, r.ValueID(), m.VID)
			}
			return w.CmpMap(r, m)
		default:
			return violf("got %T, want container c%d", real, m.Serial)
		}
	default:
		return fmt.Errorf("harness: unknown model value %T", m)
	}
	return nil
}

func typeInfoEqual(a atree.TypeInfo, id uint64, comp bool) bool {
	if comp {
		return CompareTypeInfo(a, CompTI{id})
	}
	return CompareTypeInfo(a, tu.NewSimpleTypeInfo(id))
}

func (w *World) CmpArray(a *atree.Array, m *Cont) error {
	if a.Count() != uint64(len(m.Elems)) {
		return violf("array c%d count %d, model %d", m.Serial, a.Count(), len(m.Elems))
	}
	if !typeInfoEqual(a.Type(), m.TypeID, m.Comp) {
		return violf("array c%d type %v, model %d/%v", m.Serial, a.Type(), m.TypeID, m.Comp)
	}
	it, err := a.ReadOnlyIterator()
	if err != nil {
		return violf("array c%d ReadOnlyIterator: %v", m.Serial, err)
	}
	i := 0
	for {
		v, err := it.Next()
		if err != nil {
			return violf("array c%d iterator Next at %d: %v", m.Serial, i, err)
		}
		if v == nil {
			break
		}
		if i >= len(m.Elems) {
			return violf("array c%d iterator yields more than %d elements", m.Serial, len(m.Elems))
		}
		if err := w.CmpValue(v, m.Elems[i]); err != nil {
			return wrapViol(err, fmt.Sprintf("array c%d element %d: ", m.Serial, i))
		}
		i++
	}
	if i != len(m.Elems) {
		return violf("array c%d iterator yields %d elements, model %d", m.Serial, i, len(m.Elems))
	}
	return nil
}

func wrapViol(err error, prefix string) error {
	if v, ok := err.(*Violation); ok {
		return &Violation{Msg: asciiSafe(prefix + v.Msg)}
	}
	return fmt.Errorf("%s%w", prefix, err)
}

func mvEqualKey(a, b MV) bool { return reflect.DeepEqual(a, b) }

func (w *World) CmpMap(r *atree.OrderedMap, m *Cont) error {
	if r.Count() != uint64(len(m.Keys)) {
		return violf("map c%d count %d, model %d", m.Serial, r.Count(), len(m.Keys))
	}
	if !typeInfoEqual(r.Type(), m.TypeID, m.Comp) {
		return violf("map c%d type %v, model %d/%v", m.Serial, r.Type(), m.TypeID, m.Comp)
	}
	it, err := r.ReadOnlyIterator()
	if err != nil {
		return violf("map c%d ReadOnlyIterator: %v", m.Serial, err)
	}
	seen := make([]bool, len(m.Keys))
	n := 0
	for {
		k, v, err := it.Next()
		if err != nil {
			return violf("map c%d iterator Next: %v", m.Serial, err)
		}
		if k == nil {
			break
		}
		n++
		found := -1
		for i, mk := range m.Keys {
			if w.CmpValue(k, mk) == nil {
				found = i
				break
			}
		}
		if found < 0 {
			return violf("map c%d iterator yields key %v not in model %s", m.Serial, k, MVString(m))
		}
		if seen[found] {
			return violf("map c%d iterator yields key %v twice", m.Serial, k)
		}
		seen[found] = true
		if err := w.CmpValue(v, m.Vals[found]); err != nil {
			return wrapViol(err, fmt.Sprintf("map c%d value of key %s: ", m.Serial, MVString(m.Keys[found])))
		}
	}
	if n != len(m.Keys) {
		return violf("map c%d iterator yields %d entries, model %d", m.Serial, n, len(m.Keys))
	}
	return nil
}

// CmpStorable compares a storable handed back by the library with a model value.
func (w *World) CmpStorable(s atree.Storable, m MV) error {
	if s == nil {
		return violf("got nil storable, want %s", MVString(m))
	}
	v, err := s.StoredValue(w.St)
	if err != nil {
		return violf("StoredValue of returned storable failed: %v", err)
	}
	return w.CmpValue(v, m)
}

// ---------------------------------------------------------------------------------------------
// Disposal of values handed back (the disciplined caller of C09).

func (w *World) markDead(v MV) {
	u, _ := Unwrap(v)
	c, ok := u.(*Cont)
	if !ok {
		return
	}
	c.Dead = true
	c.Parent = nil
	for _, e := range c.Elems {
		w.markDead(e)
	}
	for _, e := range c.Vals {
		w.markDead(e)
	}
}

func unwrapStorable(s atree.Storable) atree.Storable {
	for {
		ws, ok := s.(atree.WrapperStorable)
		if !ok {
			return s
		}
		s = ws.UnwrapAtreeStorable()
	}
}

// DisposeStorable mirrors cmd/smoke's removeStorable.
func (w *World) DisposeStorable(s atree.Storable) error {
	v, err := s.StoredValue(w.St)
	if err != nil {
		return violf("dispose: StoredValue failed: %v", err)
	}
	var inner error
	switch h := unwrapReal(v).(type) {
	case *atree.Array:
		err = h.PopIterate(func(e atree.Storable) {
			if e2 := w.DisposeStorable(e); e2 != nil && inner == nil {
				inner = e2
			}
		})
	case *atree.OrderedMap:
		err = h.PopIterate(func(k, e atree.Storable) {
			if e2 := w.DisposeStorable(k); e2 != nil && inner == nil {
				inner = e2
			}
			if e2 := w.DisposeStorable(e); e2 != nil && inner == nil {
				inner = e2
			}
		})
	}
	if err != nil {
		return violf("dispose: PopIterate failed: %v", err)
	}
	if inner != nil {
		return inner
	}
	if sid, ok := unwrapStorable(s).(atree.SlabIDStorable); ok {
		if err := w.St.Remove(atree.SlabID(sid)); err != nil {
			return violf("dispose: Remove(%s) failed: %v", atree.SlabID(sid), err)
		}
	}
	return nil
}

// handBack processes a storable handed back by Set/Remove for model value old:
// compare, then either keep the container it denotes (detached) or dispose of it.
func (w *World) handBack(s atree.Storable, old MV, keep bool, what string) error {
	if err := w.CmpStorable(s, old); err != nil {
		return wrapViol(err, what+" handed back: ")
	}
	u, _ := Unwrap(old)
	if c, ok := u.(*Cont); ok {
		c.AltArr, c.AltMap = nil, nil
		oldParent := c.Parent
		c.Parent = nil
		c.Wrap = 0
		if keep {
			// Detached: it must now be an independently stored value.
			if _, isRef := unwrapStorable(s).(atree.SlabIDStorable); !isRef {
				return violf("%s handed back container c%d as %T, want a slab reference", what, c.Serial, unwrapStorable(s))
			}
			if w.TrackStale && (c.Arr != nil || c.Map != nil) {
				// keep the pre-detachment handle as the stale one; continue with the handle a caller
				// gets from the value handed back
				c.StaleArr, c.StaleMap, c.FormerParent = c.Arr, c.Map, oldParent
				if v, err := s.StoredValue(w.St); err == nil {
					switch h := unwrapReal(v).(type) {
					case *atree.Array:
						c.Arr = h
					case *atree.OrderedMap:
						c.Map = h
					}
					w.dropDescendantHandles(c)
				}
			}
			return nil
		}
		w.markDead(c)
	}
	return w.DisposeStorable(s)
}

// ---------------------------------------------------------------------------------------------
// Error expectations.

type errKind int

const (
	errNone errKind = iota
	errIndexOOB
	errKeyNotFound
	errSliceOOB
	errInvalidSlice
	errCollisionLimit
)

func checkErr(err error, want errKind, what string) error {
	if want == errNone {
		if err != nil {
			return violf("%s failed: %v", what, err)
		}
		return nil
	}
	if err == nil {
		return violf("%s succeeded, model expects an error (%d)", what, want)
	}
	var ok, user, fatal bool
	var ue *atree.UserError
	var fe *atree.FatalError
	user = errors.As(err, &ue)
	fatal = errors.As(err, &fe)
	switch want {
	case errIndexOOB:
		var e *atree.IndexOutOfBoundsError
		ok = errors.As(err, &e) && user && !fatal
	case errKeyNotFound:
		var e *atree.KeyNotFoundError
		ok = errors.As(err, &e) && user && !fatal
	case errSliceOOB:
		var e *atree.SliceOutOfBoundsError
		ok = errors.As(err, &e) && user && !fatal
	case errInvalidSlice:
		var e *atree.InvalidSliceIndexError
		ok = errors.As(err, &e) && user && !fatal
	case errCollisionLimit:
		var e *atree.CollisionLimitError
		ok = errors.As(err, &e) && fatal && !user
	}
	if !ok {
		return violf("%s: error %T %q does not have the expected type/category (%d)", what, err, err.Error(), want)
	}
	return nil
}

// ---------------------------------------------------------------------------------------------
// Applying operations.

func (w *World) cont(n int) (*Cont, error) {
	if n < 0 || n >= len(w.Conts) {
		return nil, fmt.Errorf("harness: no container c%d", n)
	}
	c := w.Conts[n]
	if err := w.EnsureHandle(c); err != nil {
		return nil, err
	}
	return c, nil
}

// newValue builds the value an op inserts: model value + real value.
func (w *World) newValue(o Op, into *Cont) (MV, atree.Value, error) {
	if o.V == "@" {
		x, err := w.cont(o.X)
		if err != nil {
			return nil, nil, err
		}
		if x.Parent != nil || x == into {
			return nil, nil, fmt.Errorf("harness: c%d is already attached", x.Serial)
		}
		var mv MV = x
		var rv atree.Value = ToAtree(x)
		for i := 0; i < o.W; i++ {
			mv = Some{mv}
			rv = tu.NewSomeValue(rv)
		}
		return mv, rv, nil
	}
	if o.V == "fit" || o.V == "fit+" {
		o.V = w.fitClass(o, into, o.V == "fit+")
	}
	// nested container classes: [s:]*A[:cls,cls…] / [s:]*M[:cls,…] create, populate and hand over a new child
	wraps := 0
	cl := o.V
	for strings.HasPrefix(cl, "ss:") && isContClass(trimS(cl[3:])) {
		wraps += 2
		cl = cl[3:]
	}
	for strings.HasPrefix(cl, "s:") {
		rest := cl[2:]
		if strings.HasPrefix(rest, "A") || strings.HasPrefix(rest, "M") || strings.HasPrefix(rest, "s:") {
			wraps++
			cl = rest
			continue
		}
		break
	}
	if isContClass(cl) {
		isMap := cl[0] == 'M'
		comp := strings.HasPrefix(cl, "Mc") // composite type info (compact encoding candidates)
		addr := w.Addr
		if into != nil {
			addr = into.SID.Address()
		}
		ch, err := w.newCont(isMap, addr, contClassType(cl), comp, false)
		if err != nil {
			return nil, nil, err
		}
		if i := strings.IndexByte(cl, ':'); i >= 0 && i+1 < len(cl) {
			for n, ecl := range strings.Split(cl[i+1:], ",") {
				w.Serial++
				ev := MakeSimple(Class(ecl), w.Serial)
				if isMap {
					key := w.KeyOf(n)
					if comp {
						key = Str{fmt.Sprintf("f%d", n)}
					}
					if old, err := ch.Map.Set(CompareValue, GetHashInput, ToAtree(key), ToAtree(ev)); err != nil || old != nil {
						return nil, nil, violf("populating new map child: %v %v", old, err)
					}
					ch.Keys = append(ch.Keys, key)
					ch.Vals = append(ch.Vals, ev)
				} else {
					if err := ch.Arr.Append(ToAtree(ev)); err != nil {
						return nil, nil, violf("populating new array child: %v", err)
					}
					ch.Elems = append(ch.Elems, ev)
				}
			}
		}
		var mv MV = ch
		var rv atree.Value = ToAtree(ch)
		for i := 0; i < wraps; i++ {
			mv = Some{mv}
			rv = tu.NewSomeValue(rv)
		}
		return mv, rv, nil
	}
	w.Serial++
	mv := MakeSimple(Class(o.V), w.Serial)
	return mv, ToAtree(mv), nil
}

// fitClass resolves the dynamic classes "fit" / "fit+": a string sized so that, after this operation, the nested
// container `into` (a single slab) has an inlined size EXACTLY equal to (fit) or one byte over (fit+) the limit its
// parent allows for that element — the two sides of the inlined/standalone boundary.  Falls back to "t" where no
// such size exists (root containers, multi-slab children, sizes a string cannot have).
func (w *World) fitClass(o Op, into *Cont, over bool) string {
	if into == nil || into.Parent == nil {
		return "t"
	}
	_, _, _, maxArr, maxMapElem, maxKey := atree.VerifThresholds()
	wk := w.DoWalk()
	var slab atree.Slab
	if s, ok := wk.Inlined[into.VID]; ok {
		slab = s
	} else if r := wk.ByID[into.SID]; r != nil {
		slab = r.Slab
	}
	if slab == nil {
		return "t"
	}
	info := atree.VerifDescribeSlab(slab)
	if info.Kind != "arrayData" && info.Kind != "mapData" {
		return "t"
	}
	cur := int64(inlinedSizeOf(&info))
	sizeOf := func(v MV) int64 {
		switch v := v.(type) {
		case Scalar:
			return int64(ScalarSize(v.N))
		case Str:
			return int64(StrSize(v.S))
		}
		return -1
	}
	// the limit the parent grants this child
	p := into.Parent
	limit := int64(maxArr)
	if p.IsMap {
		pos := childPos(p, into)
		if pos < 0 {
			return "t"
		}
		ks := sizeOf(p.Keys[pos])
		if ks < 0 || ks > int64(maxKey) {
			return "t"
		}
		limit = int64(maxMapElem) - ks - 1
	}
	limit -= 2 * int64(into.Wrap)
	if over {
		limit++
	}
	// what the operation adds besides the new value itself
	var want int64
	switch o.K {
	case "append", "insert":
		want = limit - cur
	case "set":
		if int(o.I) >= len(into.Elems) {
			return "t"
		}
		old := sizeOf(into.Elems[o.I])
		if old < 0 {
			return "t"
		}
		want = limit - cur + old
	case "mset":
		key := w.KeyOf(o.Key)
		ks := sizeOf(key)
		if ks < 0 {
			return "t"
		}
		found := -1
		for i, mk := range into.Keys {
			if mvEqualKey(mk, key) {
				found = i
			}
		}
		if found >= 0 {
			old := sizeOf(into.Vals[found])
			if old < 0 {
				return "t"
			}
			want = limit - cur + old
		} else {
			want = limit - cur - 8 - 1 - ks
		}
	default:
		return "t"
	}
	// the element itself must stay inlinable in the child, and be a size a string can have
	elemMax := int64(maxArr)
	if into.IsMap {
		elemMax = int64(maxMapElem) - 3 - 1
	}
	if want < 2 || want > elemMax || want == 25 || want == 258 || want == 259 {
		return "t"
	}
	return fmt.Sprintf("s%d", want)
}

// disposeRefused: a request was rejected; a container the harness had created as its value never entered the
// refusing container and still belongs to the caller, who disposes of it (a detached container offered with
// "@" simply stays detached).
func (w *World) disposeRefused(o Op, mv MV) error {
	if o.V == "@" {
		return nil
	}
	u, _ := Unwrap(mv)
	c, ok := u.(*Cont)
	if !ok {
		return nil
	}
	sid := c.SID
	w.markDead(c)
	if err := w.DisposeStorable(atree.SlabIDStorable(sid)); err != nil {
		return wrapViol(err, "disposing of the value of the rejected request "+o.String()+": ")
	}
	return nil
}

func isContClass(cl string) bool {
	if cl == "" {
		return false
	}
	if cl[0] != 'A' && cl[0] != 'M' {
		return false
	}
	rest := cl[1:]
	if strings.HasPrefix(rest, "c") {
		rest = rest[1:]
	}
	for rest != "" && rest[0] >= '0' && rest[0] <= '9' {
		rest = rest[1:]
	}
	return rest == "" || rest[0] == ':'
}

// contClassType: optional digits after A / M / Mc give the type id of the new container (default 7).
func contClassType(cl string) uint64 {
	rest := cl[1:]
	if strings.HasPrefix(rest, "c") {
		rest = rest[1:]
	}
	n, have := uint64(0), false
	for rest != "" && rest[0] >= '0' && rest[0] <= '9' {
		n = n*10 + uint64(rest[0]-'0')
		have = true
		rest = rest[1:]
	}
	if !have {
		return 7
	}
	return n
}

func attach(mv MV, parent *Cont) {
	u, n := Unwrap(mv)
	if c, ok := u.(*Cont); ok {
		c.Parent = parent
		c.Wrap = n
	}
}

// Apply executes one operation on the real containers and on the model and compares what the
// operation returned.  A *Violation is a property violation; any other error is a harness error.
func (w *World) Apply(o Op) (err error) {
	defer func() {
		if r := recover(); r != nil {
			err = violf("panic in %s: %v", o, r)
		}
	}()
	w.Steps++
	w.LastRet = ""
	w.History = append(w.History, o)
	err = w.apply(o)
	w.noteProvenance(o)
	w.Rets = append(w.Rets, w.LastRet)
	return err
}

func (w *World) apply(o Op) error {
	if o.Alt {
		// run the operation through the second handle: swap it in for the duration of the call
		c := w.Conts[o.C]
		if c.Dead || (c.AltArr == nil && c.AltMap == nil) {
			return fmt.Errorf("harness: c%d has no second handle", o.C)
		}
		c.Arr, c.AltArr = c.AltArr, c.Arr
		c.Map, c.AltMap = c.AltMap, c.Map
		o2 := o
		o2.Alt = false
		err := w.apply(o2)
		c.Arr, c.AltArr = c.AltArr, c.Arr
		c.Map, c.AltMap = c.AltMap, c.Map
		return err
	}
	switch o.K {
	case "newarr", "newmap":
		addr := w.Addr
		if o.N == 1 {
			addr = atree.Address{}
		} else if o.N == 2 {
			addr = OtherAddr
		}
		_, err := w.NewCont(o.K == "newmap", addr, uint64(42+o.J), o.D)
		return err

	case "append", "insert":
		c, err := w.cont(o.C)
		if err != nil {
			return err
		}
		mv, rv, err := w.newValue(o, c)
		if err != nil {
			return err
		}
		n := uint64(len(c.Elems))
		idx := o.I
		if o.K == "append" {
			idx = n
			err = c.Arr.Append(rv)
		} else {
			err = c.Arr.Insert(idx, rv)
		}
		if idx > n {
			w.LastRet = "err:oob"
			if e := checkErr(err, errIndexOOB, o.String()); e != nil {
				return e
			}
			return w.disposeRefused(o, mv)
		}
		if e := checkErr(err, errNone, o.String()); e != nil {
			return e
		}
		c.Elems = append(c.Elems, nil)
		copy(c.Elems[idx+1:], c.Elems[idx:])
		c.Elems[idx] = mv
		attach(mv, c)
		return w.after(c)

	case "set":
		c, err := w.cont(o.C)
		if err != nil {
			return err
		}
		mv, rv, err := w.newValue(o, c)
		if err != nil {
			return err
		}
		old, err := c.Arr.Set(o.I, rv)
		if o.I >= uint64(len(c.Elems)) {
			w.LastRet = "err:oob"
			if e := checkErr(err, errIndexOOB, o.String()); e != nil {
				return e
			}
			return w.disposeRefused(o, mv)
		}
		if e := checkErr(err, errNone, o.String()); e != nil {
			return e
		}
		oldM := c.Elems[o.I]
		c.Elems[o.I] = mv
		attach(mv, c)
		w.LastRet = MVString(oldM)
		if e := w.handBack(old, oldM, o.D, o.String()); e != nil {
			return e
		}
		return w.after(c)

	case "remove":
		c, err := w.cont(o.C)
		if err != nil {
			return err
		}
		old, err := c.Arr.Remove(o.I)
		if o.I >= uint64(len(c.Elems)) {
			w.LastRet = "err:oob"
			return checkErr(err, errIndexOOB, o.String())
		}
		if e := checkErr(err, errNone, o.String()); e != nil {
			return e
		}
		oldM := c.Elems[o.I]
		c.Elems = append(c.Elems[:o.I:o.I], c.Elems[o.I+1:]...)
		w.LastRet = MVString(oldM)
		if e := w.handBack(old, oldM, o.D, o.String()); e != nil {
			return e
		}
		return w.after(c)

	case "get":
		c, err := w.cont(o.C)
		if err != nil {
			return err
		}
		v, err := c.Arr.Get(o.I)
		if o.I >= uint64(len(c.Elems)) {
			w.LastRet = "err:oob"
			return checkErr(err, errIndexOOB, o.String())
		}
		if e := checkErr(err, errNone, o.String()); e != nil {
			return e
		}
		w.LastRet = MVString(c.Elems[o.I])
		if e := w.CmpValue(v, c.Elems[o.I]); e != nil {
			return wrapViol(e, o.String()+": ")
		}
		// A lookup hands out a handle to a nested container: adopt it (C10: "obtained by lookup").
		if u, _ := Unwrap(c.Elems[o.I]); true {
			if ch, ok := u.(*Cont); ok {
				switch h := unwrapReal(v).(type) {
				case *atree.Array:
					ch.Arr = h
				case *atree.OrderedMap:
					ch.Map = h
				}
				w.dropDescendantHandles(ch)
			}
		}
		return w.after(c)

	case "pop":
		c, err := w.cont(o.C)
		if err != nil {
			return err
		}
		var inner error
		if c.IsMap {
			// Reverse canonical order is checked by C13; here: every entry exactly once.
			seen := make([]bool, len(c.Keys))
			n := 0
			canon, cerr := w.canonMapOrder(c)
			if cerr != nil {
				return cerr
			}
			var popSeq []int
			err = c.Map.PopIterate(func(k, v atree.Storable) {
				n++
				if inner != nil {
					return
				}
				kv, e := k.StoredValue(w.St)
				if e != nil {
					inner = violf("%s: key StoredValue: %v", o, e)
					return
				}
				found := -1
				for i, mk := range c.Keys {
					if !seen[i] && w.CmpValue(kv, mk) == nil {
						found = i
						break
					}
				}
				if found < 0 {
					inner = violf("%s: popped key %v not in model (or twice)", o, kv)
					return
				}
				seen[found] = true
				popSeq = append(popSeq, found)
				if e := w.handBack(v, c.Vals[found], false, o.String()); e != nil {
					inner = e
					return
				}
				if e := w.DisposeStorable(k); e != nil {
					inner = e
				}
			})
			if e := checkErr(err, errNone, o.String()); e != nil {
				return e
			}
			if inner != nil {
				return inner
			}
			if n != len(c.Keys) {
				return violf("%s: popped %d entries, model has %d", o, n, len(c.Keys))
			}
			for k := range popSeq {
				if popSeq[k] != canon[len(canon)-1-k] {
					return violf("%s: bulk pop yields key %s at position %d, reverse canonical order wants %s", o, MVString(c.Keys[popSeq[k]]), k, MVString(c.Keys[canon[len(canon)-1-k]]))
				}
			}
			c.Keys, c.Vals = nil, nil
		} else {
			i := len(c.Elems)
			err = c.Arr.PopIterate(func(s atree.Storable) {
				i--
				if inner != nil {
					return
				}
				if i < 0 {
					inner = violf("%s: popped more elements than the model has", o)
					return
				}
				if e := w.handBack(s, c.Elems[i], false, o.String()); e != nil {
					inner = e
				}
			})
			if e := checkErr(err, errNone, o.String()); e != nil {
				return e
			}
			if inner != nil {
				return inner
			}
			if i != 0 {
				return violf("%s: popped %d elements, model has %d", o, len(c.Elems)-i, len(c.Elems))
			}
			c.Elems = nil
		}
		return w.after(c)

	case "settype":
		c, err := w.cont(o.C)
		if err != nil {
			return err
		}
		ti := w.typeInfo(uint64(o.N), c.Comp)
		if c.IsMap {
			err = c.Map.SetType(ti)
		} else {
			err = c.Arr.SetType(ti)
		}
		if e := checkErr(err, errNone, o.String()); e != nil {
			return e
		}
		c.TypeID = uint64(o.N)
		return w.after(c)

	case "mset":
		c, err := w.cont(o.C)
		if err != nil {
			return err
		}
		key := w.KeyOf(o.Key)
		mv, rv, err := w.newValue(o, c)
		if err != nil {
			return err
		}
		pos := -1
		for i, k := range c.Keys {
			if mvEqualKey(k, key) {
				pos = i
			}
		}
		old, err := c.Map.Set(CompareValue, GetHashInput, ToAtree(key), rv)
		if w.Digests != nil && c.Table && pos < 0 && w.Digests.expectCollisionLimit(c, key) {
			w.LastRet = "err:collisionlimit"
			return checkErr(err, errCollisionLimit, o.String())
		}
		if e := checkErr(err, errNone, o.String()); e != nil {
			return e
		}
		if pos < 0 {
			if old != nil {
				return violf("%s: inserting an absent key handed back %v", o, old)
			}
			c.Keys = append(c.Keys, key)
			c.Vals = append(c.Vals, mv)
			attach(mv, c)
			w.LastRet = "nil"
			return w.after(c)
		}
		oldM := c.Vals[pos]
		c.Vals[pos] = mv
		attach(mv, c)
		w.LastRet = MVString(oldM)
		if e := w.handBack(old, oldM, o.D, o.String()); e != nil {
			return e
		}
		return w.after(c)

	case "mget", "mhas":
		c, err := w.cont(o.C)
		if err != nil {
			return err
		}
		key := w.KeyOf(o.Key)
		pos := -1
		for i, k := range c.Keys {
			if mvEqualKey(k, key) {
				pos = i
			}
		}
		if o.K == "mhas" {
			has, err := c.Map.Has(CompareValue, GetHashInput, ToAtree(key))
			if e := checkErr(err, errNone, o.String()); e != nil {
				return e
			}
			w.LastRet = fmt.Sprint(pos >= 0)
			if has != (pos >= 0) {
				return violf("%s returned %v, model %v", o, has, pos >= 0)
			}
			return w.after(c)
		}
		v, err := c.Map.Get(CompareValue, GetHashInput, ToAtree(key))
		if pos < 0 {
			w.LastRet = "err:knf"
			return checkErr(err, errKeyNotFound, o.String())
		}
		if e := checkErr(err, errNone, o.String()); e != nil {
			return e
		}
		w.LastRet = MVString(c.Vals[pos])
		if e := w.CmpValue(v, c.Vals[pos]); e != nil {
			return wrapViol(e, o.String()+": ")
		}
		if u, _ := Unwrap(c.Vals[pos]); true {
			if ch, ok := u.(*Cont); ok {
				switch h := unwrapReal(v).(type) {
				case *atree.Array:
					ch.Arr = h
				case *atree.OrderedMap:
					ch.Map = h
				}
				w.dropDescendantHandles(ch)
			}
		}
		return w.after(c)

	case "mremove":
		c, err := w.cont(o.C)
		if err != nil {
			return err
		}
		key := w.KeyOf(o.Key)
		pos := -1
		for i, k := range c.Keys {
			if mvEqualKey(k, key) {
				pos = i
			}
		}
		ks, vs, err := c.Map.Remove(CompareValue, GetHashInput, ToAtree(key))
		if pos < 0 {
			w.LastRet = "err:knf"
			return checkErr(err, errKeyNotFound, o.String())
		}
		if e := checkErr(err, errNone, o.String()); e != nil {
			return e
		}
		if e := w.CmpStorable(ks, key); e != nil {
			return wrapViol(e, o.String()+" removed key: ")
		}
		oldM := c.Vals[pos]
		c.Keys = append(c.Keys[:pos:pos], c.Keys[pos+1:]...)
		c.Vals = append(c.Vals[:pos:pos], c.Vals[pos+1:]...)
		w.LastRet = MVString(oldM)
		if e := w.handBack(vs, oldM, o.D, o.String()); e != nil {
			return e
		}
		if e := w.DisposeStorable(ks); e != nil {
			return e
		}
		return w.after(c)

	case "reget":
		c := w.Conts[o.C]
		if c.Dead || c.Parent == nil {
			return fmt.Errorf("harness: reget of c%d which is not attached", o.C)
		}
		return w.Reget(c)

	case "itermut":
		c, err := w.cont(o.C)
		if err != nil {
			return err
		}
		return w.iterMut(c, o)

	case "get2":
		// obtain a second handle to an attached child by lookup through its parent
		c := w.Conts[o.C]
		if c.Dead || c.Parent == nil {
			return fmt.Errorf("harness: get2 of c%d which is not attached", o.C)
		}
		if err := w.EnsureHandle(c); err != nil {
			return err
		}
		keepArr, keepMap := c.Arr, c.Map
		c.Arr, c.Map = nil, nil
		if err := w.Reget(c); err != nil {
			return err
		}
		c.AltArr, c.AltMap = c.Arr, c.Map
		c.Arr, c.Map = keepArr, keepMap
		return nil

	case "stalemut":
		c := w.Conts[o.C]
		if c.Dead || (c.StaleArr == nil && c.StaleMap == nil) {
			return fmt.Errorf("harness: stalemut of c%d without a stale handle", o.C)
		}
		w.Serial++
		if c.IsMap {
			_, _ = c.StaleMap.Set(CompareValue, GetHashInput, ToAtree(w.KeyOf(77)), ToAtree(MakeSimple("t", w.Serial)))
		} else {
			_ = c.StaleArr.Append(ToAtree(MakeSimple("t", w.Serial)))
		}
		w.FormerOnly = c.FormerParent
		return nil

	case "iterget":
		c := w.Conts[o.C]
		if c.Dead || c.Parent == nil {
			return fmt.Errorf("harness: iterget of c%d which is not attached", o.C)
		}
		return w.IterGet(c)

	case "creopen":
		if err := w.Commit(1, false); err != nil {
			return err
		}
		w.Reopen()
		return nil

	case "cdrop":
		if err := w.Commit(1, false); err != nil {
			return err
		}
		w.St.DropCache()
		w.dropChildHandles()
		return nil

	case "dispose":
		c, err := w.cont(o.C)
		if err != nil {
			return err
		}
		if c.Parent != nil {
			return fmt.Errorf("harness: dispose of attached c%d", o.C)
		}
		w.markDead(c)
		return w.DisposeStorable(atree.SlabIDStorable(c.SID))

	case "commit":
		return w.Commit(o.N, false)
	case "ncommit":
		return w.Commit(o.N, true)
	case "dropcache":
		w.St.DropCache()
		w.dropChildHandles()
		return nil
	case "reopen":
		w.Reopen()
		return nil
	}
	return fmt.Errorf("harness: unknown op %q", o.K)
}

// after checks the cheap always-true facts about the container just operated on.
func (w *World) after(c *Cont) error {
	if c.IsMap {
		if c.Map.Count() != uint64(len(c.Keys)) {
			return violf("map c%d Count() = %d, model %d", c.Serial, c.Map.Count(), len(c.Keys))
		}
		if c.Map.ValueID() != c.VID {
			return violf("map c%d value id changed: %s, was %s", c.Serial, c.Map.ValueID(), c.VID)
		}
		if !typeInfoEqual(c.Map.Type(), c.TypeID, c.Comp) {
			return violf("map c%d Type() = %v, model %d", c.Serial, c.Map.Type(), c.TypeID)
		}
		if c.Parent == nil && c.Map.SlabID() != c.SID {
			return violf("map c%d root slab id changed: %s, was %s", c.Serial, c.Map.SlabID(), c.SID)
		}
		return nil
	}
	if c.Arr.Count() != uint64(len(c.Elems)) {
		return violf("array c%d Count() = %d, model %d", c.Serial, c.Arr.Count(), len(c.Elems))
	}
	if c.Arr.ValueID() != c.VID {
		return violf("array c%d value id changed: %s, was %s", c.Serial, c.Arr.ValueID(), c.VID)
	}
	if !typeInfoEqual(c.Arr.Type(), c.TypeID, c.Comp) {
		return violf("array c%d Type() = %v, model %d", c.Serial, c.Arr.Type(), c.TypeID)
	}
	if c.Parent == nil && c.Arr.SlabID() != c.SID {
		return violf("array c%d root slab id changed: %s, was %s", c.Serial, c.Arr.SlabID(), c.SID)
	}
	return nil
}

// Commit runs one of the two commits with the ledger in phase "commit".
func (w *World) Commit(workers int, relaxed bool) error {
	if workers <= 0 {
		workers = 1
	}
	w.Ledger.Phase = "commit"
	var err error
	if relaxed {
		err = w.St.NondeterministicFastCommit(workers)
	} else {
		err = w.St.FastCommit(workers)
	}
	w.Ledger.Phase = ""
	if err != nil {
		return violf("commit failed: %v", err)
	}
	w.Commits++
	for _, b := range w.Ledger.Regs {
		if hasCompactMap(b) {
			w.EverCompact = true
		}
	}
	if w.TrackCommits {
		w.CommittedConts = cloneConts(w.Conts)
		w.CommittedLedger = w.Ledger.Snapshot()
	}
	return nil
}

func (w *World) dropChildHandles() {
	for _, c := range w.Conts {
		if c.Parent != nil {
			c.Arr, c.Map = nil, nil
			c.AltArr, c.AltMap = nil, nil
		}
	}
}

// Reopen abandons the storage and opens a new one over the same ledger; every handle is dropped.
func (w *World) Reopen() {
	w.St = NewStorage(w.Ledger)
	for _, c := range w.Conts {
		c.Arr, c.Map = nil, nil
		c.AltArr, c.AltMap = nil, nil
	}
}

// DeepCheck compares every live root with its model using read-only iteration.
func (w *World) DeepCheck() error {
	for _, c := range w.LiveRoots() {
		if err := w.EnsureHandle(c); err != nil {
			return err
		}
		var err error
		if c.IsMap {
			err = w.CmpMap(c.Map, c)
		} else {
			err = w.CmpArray(c.Arr, c)
			if n := len(c.Elems); err == nil && n >= 2 {
				// the tail read as a read-only range: a range's first slab is found by its own positional descent
				var got []atree.Value
				s := n / 2
				err = c.Arr.IterateReadOnlyRange(uint64(s), uint64(n), func(v atree.Value) (bool, error) { got = append(got, v); return true, nil })
				if err != nil {
					err = violf("array c%d IterateReadOnlyRange(%d,%d): %v", c.Serial, s, n, err)
				} else {
					err = w.cmpSeq(fmt.Sprintf("array c%d IterateReadOnlyRange(%d,%d)", c.Serial, s, n), got, c.Elems[s:])
				}
			}
		}
		if err != nil {
			return err
		}
	}
	return nil
}

// level0Digest computes the first-level digest of key under a map seed, the way the map's
// digester would (controlled table, or the default CircleHash64 digester).
func (w *World) level0Digest(key MV, seed uint64, table bool) (uint64, bool) {
	if w.Digests != nil && table {
		return w.Digests.digestsOf(keyNumber(key))[0], true
	}
	var scratch [64]byte
	msg, err := GetHashInput(ToAtree(key), scratch[:])
	if err != nil {
		return 0, false
	}
	return circlehash.Hash64(msg, seed), true
}

// universeOfMap returns the keys future operations may use on the map with the given value id:
// the space's key universe if the space operates on that map (OpMaps nil = roots only), plus
// whatever keys it holds now.
func (w *World) universeOfMap(vid atree.ValueID) []MV {
	var c *Cont
	for _, x := range w.Conts {
		if x.VID == vid && !x.Dead {
			c = x
		}
	}
	var u []MV
	if c == nil {
		return w.KeyUniverse
	}
	operated := c.Parent == nil
	if w.OpMaps != nil {
		operated = w.OpMaps(c)
	}
	if operated {
		u = append(u, w.KeyUniverse...)
	}
	for _, k := range c.Keys {
		dup := false
		for _, x := range u {
			if mvEqualKey(x, k) {
				dup = true
			}
		}
		if !dup {
			u = append(u, k)
		}
	}
	return u
}

// iterMut runs a mutable iteration over c and, when the cursor has just yielded position o.I,
// overwrites that element (o.V a class) or grows the nested container there (o.V == "grow"),
// then continues.  Every element must be yielded exactly once, in canonical order.
func (w *World) iterMut(c *Cont, o Op) error {
	pos := int(o.I)
	var order []int
	n := c.Count()
	if c.IsMap {
		var err error
		order, err = w.canonMapOrder(c)
		if err != nil {
			return err
		}
	} else {
		for i := 0; i < n; i++ {
			order = append(order, i)
		}
	}
	if pos >= n {
		return fmt.Errorf("harness: itermut position %d out of range", pos)
	}
	vals := c.Elems
	if c.IsMap {
		vals = c.Vals
	}
	before := append([]MV(nil), vals...)
	mutate := func(yielded atree.Value) error {
		idx := order[pos]
		if o.V == "grow" {
			u, _ := Unwrap(before[idx])
			ch, ok := u.(*Cont)
			if !ok {
				return fmt.Errorf("harness: itermut grow on a non-container")
			}
			// adopt the handle the iterator handed out, then grow the child through it
			switch h := unwrapReal(yielded).(type) {
			case *atree.Array:
				ch.Arr = h
			case *atree.OrderedMap:
				ch.Map = h
			}
			w.dropDescendantHandles(ch)
			for k := 0; k < 3; k++ {
				w.Serial++
				ev := MakeSimple("h", w.Serial)
				if ch.IsMap {
					key := w.KeyOf(50 + k)
					if _, err := ch.Map.Set(CompareValue, GetHashInput, ToAtree(key), ToAtree(ev)); err != nil {
						return violf("%s: growing child map during iteration: %v", o, err)
					}
					ch.Keys = append(ch.Keys, key)
					ch.Vals = append(ch.Vals, ev)
				} else {
					if err := ch.Arr.Append(ToAtree(ev)); err != nil {
						return violf("%s: growing child array during iteration: %v", o, err)
					}
					ch.Elems = append(ch.Elems, ev)
				}
			}
			return nil
		}
		mv, rv, err := w.newValue(o, c)
		if err != nil {
			return err
		}
		var old atree.Storable
		if c.IsMap {
			old, err = c.Map.Set(CompareValue, GetHashInput, ToAtree(c.Keys[idx]), rv)
		} else {
			old, err = c.Arr.Set(uint64(idx), rv)
		}
		if err != nil {
			return violf("%s: overwriting the current element during iteration: %v", o, err)
		}
		if c.IsMap {
			c.Vals[idx] = mv
		} else {
			c.Elems[idx] = mv
		}
		attach(mv, c)
		return w.handBack(old, before[idx], false, o.String())
	}
	i := 0
	if c.IsMap {
		it, err := c.Map.Iterator(CompareValue, GetHashInput)
		if err != nil {
			return violf("%s: Iterator: %v", o, err)
		}
		for {
			k, v, err := it.Next()
			if err != nil {
				return violf("%s: Next at position %d: %v", o, i, err)
			}
			if k == nil {
				break
			}
			if i >= n {
				return violf("%s: iteration yields more than %d entries (an entry is repeated)", o, n)
			}
			if e := w.CmpValue(k, c.Keys[order[i]]); e != nil {
				return violf("%s: position %d yields key %v, want %s (skipped or repeated)", o, i, k, MVString(c.Keys[order[i]]))
			}
			if i != pos || o.V == "grow" {
				if e := w.CmpValue(v, before[order[i]]); e != nil && i <= pos {
					return wrapViol(e, fmt.Sprintf("%s: position %d value: ", o, i))
				}
			}
			if i == pos {
				if err := mutate(v); err != nil {
					return err
				}
			}
			i++
		}
	} else {
		it, err := c.Arr.Iterator()
		if err != nil {
			return violf("%s: Iterator: %v", o, err)
		}
		for {
			v, err := it.Next()
			if err != nil {
				return violf("%s: Next at position %d: %v", o, i, err)
			}
			if v == nil {
				break
			}
			if i >= n {
				return violf("%s: iteration yields more than %d elements (an element is repeated)", o, n)
			}
			if e := w.CmpValue(v, before[i]); e != nil && !(i == pos && o.V == "grow") {
				return wrapViol(e, fmt.Sprintf("%s: position %d (skipped or repeated?): ", o, i))
			}
			if i == pos {
				if err := mutate(v); err != nil {
					return err
				}
			}
			i++
		}
	}
	if i != n {
		return violf("%s: iteration yields %d elements, want %d (an element is skipped)", o, i, n)
	}
	return w.after(c)
}

func trimS(cl string) string {
	for {
		switch {
		case strings.HasPrefix(cl, "ss:"):
			cl = cl[3:]
		case strings.HasPrefix(cl, "s:"):
			cl = cl[2:]
		default:
			return cl
		}
	}
}

func (w *World) noteProvenance(o Op) {
	if w.prov == nil {
		w.prov = map[any]string{}
	}
	note := func(h any, inl bool) {
		if _, ok := w.prov[h]; !ok {
			w.prov[h] = fmt.Sprintf("inl=%v", inl)
		}
	}
	for _, c := range w.Conts {
		if c.Dead {
			continue
		}
		if c.Arr != nil {
			note(c.Arr, c.Arr.Inlined())
		}
		if c.Map != nil {
			note(c.Map, c.Map.Inlined())
		}
		if c.AltArr != nil {
			note(c.AltArr, c.AltArr.Inlined())
		}
		if c.AltMap != nil {
			note(c.AltMap, c.AltMap.Inlined())
		}
	}
}

func (w *World) provOf(h any) string {
	if p, ok := w.prov[h]; ok {
		return p
	}
	return "?"
}
