package vf

import (
	"regexp"
	"bytes"
	"crypto/sha256"
	"encoding/json"
	"fmt"
	"sort"

	"github.com/onflow/atree"
)

// C14: fault enumeration inside commits.

// c14Histories: each history ends with a pending write set of a few entries (stores and
// deletions, several owners, a temporary-address container) on top of a committed ledger.
func c14Histories() [][]Op {
	base := []Op{{K: "newarr"}, {K: "newmap"}, {K: "newarr", N: 2}, {K: "newarr", N: 1}}
	h := func(ops ...Op) []Op { return append(append([]Op{}, base...), ops...) }
	return [][]Op{
		// 0: nothing committed before; three owned roots + temp
		h(Op{K: "append", C: 0, V: "t"}, Op{K: "mset", C: 1, Key: 0, V: "t"}, Op{K: "append", C: 2, V: "t"}, Op{K: "append", C: 3, V: "t"}),
		// 1: committed state, then stores + deletions (large values removed)
		h(Op{K: "append", C: 0, V: "limA+"}, Op{K: "append", C: 0, V: "limA+"}, Op{K: "mset", C: 1, Key: 0, V: "limM+"}, Op{K: "commit", N: 1},
			Op{K: "remove", C: 0, I: 0}, Op{K: "mremove", C: 1, Key: 0}, Op{K: "append", C: 2, V: "huge"}),
		// 2: split of a root (new slabs), merge back (deletions of committed slabs)
		h(Op{K: "append", C: 0, V: "limA"}, Op{K: "append", C: 0, V: "limA"}, Op{K: "append", C: 0, V: "limA"}, Op{K: "append", C: 0, V: "limA"}, Op{K: "commit", N: 1},
			Op{K: "remove", C: 0, I: 0}, Op{K: "remove", C: 0, I: 0}, Op{K: "mset", C: 1, Key: 1, V: "A:t"}),
		// 3: inlined children with shared type info, child crossing the inline limit
		h(Op{K: "append", C: 0, V: "A:t"}, Op{K: "append", C: 0, V: "A:t"}, Op{K: "mset", C: 1, Key: 0, V: "Mc:t"}, Op{K: "mset", C: 1, Key: 1, V: "Mc:t"}, Op{K: "commit", N: 1},
			Op{K: "append", C: 4, V: "h"}, Op{K: "append", C: 4, V: "h"}, Op{K: "append", C: 4, V: "h"}, Op{K: "append", C: 2, V: "limA+"}),
		// 4: only deletions pending
		h(Op{K: "append", C: 0, V: "limA+"}, Op{K: "append", C: 2, V: "limA+"}, Op{K: "mset", C: 1, Key: 0, V: "limM+"}, Op{K: "commit", N: 1},
			Op{K: "pop", C: 0}, Op{K: "pop", C: 2}, Op{K: "pop", C: 1}),
		// 5: exactly one modified slab and one deletion (the relaxed commit's small-write-set path)
		h(Op{K: "append", C: 0, V: "limA+"}, Op{K: "commit", N: 1}, Op{K: "remove", C: 0, I: 0}),
		// 7 (listed first for readability, index 6 below): several inlined children of two different types in ONE
		// slab, each type used twice (shared type-info table with two entries), plus a compact pair in the map
		h(Op{K: "append", C: 0, V: "M8:t"}, Op{K: "append", C: 0, V: "M9:t"}, Op{K: "append", C: 0, V: "M8:t"}, Op{K: "append", C: 0, V: "M9:t"},
			Op{K: "mset", C: 1, Key: 0, V: "Mc:t,t"}, Op{K: "mset", C: 1, Key: 1, V: "M5:t"}, Op{K: "mset", C: 1, Key: 2, V: "Mc:t,t"}, Op{K: "mset", C: 1, Key: 3, V: "M5:t"}, Op{K: "mset", C: 1, Key: 4, V: "M6:t"}, Op{K: "mset", C: 1, Key: 5, V: "M6:t"}),
		// keys colliding on the first digest level under the default (pooled) digester
		h(Op{K: "mset", C: 1, Key: 300, V: "t"}, Op{K: "mset", C: 1, Key: 301, V: "s60"}, Op{K: "commit", N: 1},
			Op{K: "mset", C: 1, Key: 302, V: "s60"}, Op{K: "mremove", C: 1, Key: 300}, Op{K: "append", C: 0, V: "t"}),
		// map growing into several slabs
		h(Op{K: "mset", C: 1, Key: 0, V: "limM"}, Op{K: "mset", C: 1, Key: 1, V: "limM"}, Op{K: "commit", N: 1},
			Op{K: "mset", C: 1, Key: 2, V: "limM"}, Op{K: "mset", C: 1, Key: 3, V: "limM"}, Op{K: "mset", C: 1, Key: 4, V: "limM"}, Op{K: "append", C: 3, V: "limA+"}),
	}
}

type c14Arg struct {
	T       uint32 `json:"t"`
	Hist    int    `json:"hist"`
	Prefix  int    `json:"prefix"` // use only the first Prefix operations of the history (0 = all)
	Relaxed bool   `json:"relaxed"`
	Workers int    `json:"workers"`
	K       int    `json:"k"` // max number of injected faults
	Adapter bool   `json:"adapter,omitempty"` // the storage sits on the library's LedgerBaseStorage adapter over the faulting ledger
}

func buildHistory(T uint32, ops []Op) (*World, error) {
	w := NewWorld(T)
	w.KeyOf = KeyOfDefault
	for _, op := range ops {
		if err := w.Apply(op); err != nil {
			return nil, err
		}
	}
	return w, nil
}

// commitPanic is what commitRaw returns when the library's commit panicked instead of returning.
type commitPanic struct{ what string }

func (p *commitPanic) Error() string { return "commit panicked: " + p.what }

func (w *World) commitRaw(workers int, relaxed bool) (err error) {
	w.Ledger.Phase = "commit"
	defer func() { w.Ledger.Phase = "" }()
	defer func() {
		if r := recover(); r != nil {
			err = &commitPanic{fmt.Sprint(r)}
		}
	}()
	if relaxed {
		return w.St.NondeterministicFastCommit(workers)
	}
	return w.St.FastCommit(workers)
}

func c14Task(raw json.RawMessage) TaskResult {
	var a c14Arg
	var res TaskResult
	if err := json.Unmarshal(raw, &a); err != nil {
		res.Herr = err.Error()
		return res
	}
	res.Counters = map[string]int{}
	ViaLedgerAdapter = a.Adapter
	defer func() { ViaLedgerAdapter = false }()
	ops := c14Histories()[a.Hist]
	if a.Prefix > 0 && a.Prefix < len(ops) {
		ops = ops[:a.Prefix]
	}
	name := fmt.Sprintf("history %d[:%d], relaxed=%v, workers=%d", a.Hist, len(ops), a.Relaxed, a.Workers)
	if a.Adapter {
		name += ", through LedgerBaseStorage"
	}
	// fault-free twin
	tw, err := buildHistory(a.T, ops)
	if err != nil {
		res.Herr = "twin: " + err.Error()
		return res
	}
	tw.Ledger.MutCount = 0
	logStart := len(tw.Ledger.Log)
	if err := tw.commitRaw(a.Workers, a.Relaxed); err != nil {
		res.Viols = append(res.Viols, name+": fault-free commit failed: "+err.Error())
		return res
	}
	M := tw.Ledger.MutCount
	final := tw.Ledger
	if !a.Relaxed {
		// deterministic commit: ascending (owner, index) order
		calls := tw.Ledger.Log[logStart:]
		for i := 1; i < len(calls); i++ {
			if calls[i-1].ID.Compare(calls[i].ID) >= 0 {
				res.Viols = append(res.Viols, fmt.Sprintf("%s: deterministic commit writes %s after %s", name, calls[i].ID, calls[i-1].ID))
			}
		}
	}
	res.Counters["mutations_in_fault_free_commit"] += M
	// enumerate fault sets: positions count ledger mutations over all attempts
	var sets [][]int
	horizon := M + a.K
	sets = append(sets, nil)
	for i := 0; i < horizon; i++ {
		sets = append(sets, []int{i})
	}
	if a.K >= 2 {
		for i := 0; i < horizon; i++ {
			for j := i + 1; j < horizon; j++ {
				sets = append(sets, []int{i, j})
			}
		}
	}
	if a.K >= 3 {
		for i := 0; i < M; i++ {
			for j := i + 1; j < M+1; j++ {
				for k := j + 1; k < M+2; k++ {
					sets = append(sets, []int{i, j, k})
				}
			}
		}
	}
	for _, set := range sets {
		res.Evals++
		if msg := c14Run(a, ops, set, final); msg != "" {
			res.Viols = append(res.Viols, fmt.Sprintf("%s, failing ledger mutations %v: %s", name, set, msg))
			if len(res.Viols) > 3 {
				break
			}
		}
		res.Distinct = append(res.Distinct, fmt.Sprintf("%d:%d/%v/%d/%v/%v", a.Hist, len(ops), a.Relaxed, a.Workers, set, a.Adapter))
	}
	if len(res.Samples) < 1 {
		res.Samples = append(res.Samples, fmt.Sprintf("%s: %d ledger mutations in the fault-free commit, %d fault sets; history [%s]", name, M, len(sets), OpsString(ops)))
	}
	return res
}

func init() { RegisterTask("c14", c14Task) }

func c14Run(a c14Arg, ops []Op, set []int, final *Ledger) string {
	return c14RunWith(func() (*World, error) { return buildHistory(a.T, ops) }, a.Workers, a.Relaxed, set, final)
}

// c14RunWith: build the pending state, inject the fault set, commit / retry until success, judge.
func c14RunWith(build func() (*World, error), workers int, relaxed bool, set []int, final *Ledger) string {
	if msg := c14RunWith1(build, workers, relaxed, set, final, false); msg != "" {
		return msg
	}
	if len(set) > 0 {
		// the same fault set once more, the caller dropping the read cache after every failed attempt: what is pending
		// (including pending deletions) must not live in the read cache alone
		if msg := c14RunWith1(build, workers, relaxed, set, final, true); msg != "" {
			return "with the read cache dropped after each failed attempt: " + msg
		}
	}
	return ""
}

func c14RunWith1(build func() (*World, error), workers int, relaxed bool, set []int, final *Ledger, dropCache bool) string {
	a := c14Arg{Workers: workers, Relaxed: relaxed}
	w, err := build()
	if err != nil {
		return "harness: " + err.Error()
	}
	w.Ledger.MutCount = 0
	w.Ledger.FailAt = map[int]bool{}
	for _, i := range set {
		w.Ledger.FailAt[i] = true
	}
	_, deltas := atree.VerifStorageLayers(w.St)
	pre := map[atree.SlabID]atree.Slab{}
	for id, s := range deltas {
		pre[id] = s
	}
	written := map[atree.SlabID]bool{}
	payload := map[atree.SlabID][32]byte{}
	for attempt := 0; ; attempt++ {
		if attempt > len(set)+2 {
			return "commit still failing after all injected faults were consumed"
		}
		logStart := len(w.Ledger.Log)
		cerr := w.commitRaw(a.Workers, a.Relaxed)
		calls := w.Ledger.Log[logStart:]
		failedHere := false
		for _, c := range calls {
			if !c.OK {
				failedHere = true
				continue
			}
			written[c.ID] = true
			if c.Kind == "store" {
				h := sha256.Sum256(w.Ledger.Regs[c.ID])
				if old, ok := payload[c.ID]; ok && old != h {
					return fmt.Sprintf("slab %s was written twice with different bytes", c.ID)
				}
				payload[c.ID] = h
			}
		}
		if cp, ok := cerr.(*commitPanic); ok {
			return fmt.Sprintf("attempt %d: %s (a failed ledger call must be reported as an error)", attempt, cp.Error())
		}
		if failedHere != (cerr != nil) {
			return fmt.Sprintf("attempt %d: a ledger mutation failed=%v but commit returned %v", attempt, failedHere, cerr)
		}
		if cerr != nil {
			var ee *atree.ExternalError
			if !asErr(cerr, &ee) || !IsInjected(cerr) {
				return fmt.Sprintf("attempt %d: ledger failure reported as %T %q, want an external error wrapping the ledger's error", attempt, cerr, cerr)
			}
		}
		// every change not yet durably written is still pending
		_, now := atree.VerifStorageLayers(w.St)
		var preIDs []atree.SlabID
		for id := range pre {
			preIDs = append(preIDs, id)
		}
		SortIDs(preIDs)
		for _, id := range preIDs {
			s := pre[id]
			if id.HasTempAddress() {
				if cur, ok := now[id]; !ok || cur != s {
					return fmt.Sprintf("attempt %d: temporary-address slab %s left the write set", attempt, id)
				}
				continue
			}
			if !written[id] {
				cur, ok := now[id]
				if !ok {
					return fmt.Sprintf("attempt %d: change to %s was not written to the ledger but is no longer pending", attempt, id)
				}
				if cur != s {
					return fmt.Sprintf("attempt %d: pending change to %s was replaced", attempt, id)
				}
			}
		}
		if dropCache && cerr != nil {
			w.St.DropCache()
		}
		// reads return the latest values
		ids := map[atree.SlabID]bool{}
		for id := range final.Regs {
			ids[id] = true
		}
		for id := range w.Ledger.Regs {
			ids[id] = true
		}
		for id := range pre {
			ids[id] = true
		}
		var sorted []atree.SlabID
		for id := range ids {
			sorted = append(sorted, id)
		}
		SortIDs(sorted)
		for _, id := range sorted {
			if id.HasTempAddress() {
				continue
			}
			s, ok, err := w.St.Retrieve(id)
			if err != nil {
				return fmt.Sprintf("attempt %d: Retrieve(%s) failed: %v", attempt, id, err)
			}
			want, has := final.Regs[id]
			if ok != has {
				return fmt.Sprintf("attempt %d: Retrieve(%s) found=%v, latest state has it: %v", attempt, id, ok, has)
			}
			if ok {
				b, err := atree.EncodeSlab(s, encMode)
				if err != nil || !bytes.Equal(b, want) {
					return fmt.Sprintf("attempt %d: Retrieve(%s) returns a stale or different version", attempt, id)
				}
			}
		}
		if err := w.DeepCheck(); err != nil {
			return fmt.Sprintf("attempt %d: reading through the containers: %v", attempt, err)
		}
		if cerr == nil {
			break
		}
	}
	if ok, why := EqualRegs(final, w.Ledger); !ok {
		return "after retrying until success the ledger differs from the fault-free result: " + why
	}
	if n := w.St.DeltasWithoutTempAddresses(); n != 0 {
		return fmt.Sprintf("after a successful commit %d owned changes are still pending", n)
	}
	return ""
}

func init() {
	RegisterCheck(&CheckDef{ID: "C14", Level: "fault_enumeration", Run: func(r *Run) {
		r.Rule = "for every history of a corpus (pending write sets of 2-7 ledger mutations: stores and deletions, three owners, a temporary-address container, inlined children, the relaxed commit's small-write-set path), both commits, 1-3 workers, directly on the faulting BaseStorage and through the library's LedgerBaseStorage adapter over a faulting key/value ledger: EVERY set of up to k failing ledger mutations (positions counted across retries, so faults also hit retries) is injected; after every failed attempt: an external error wrapping the ledger's error is returned, every change not durably written is still in the write set (same slab object), Retrieve of every identifier and a deep read of every container return the latest values, no slab is written twice with different bytes; retrying until success leaves the ledger byte-identical to the fault-free twin and no owned change pending. distinct_nontrivial = distinct (history, commit kind, workers, fault set) cases"
		r.Assumptions = []string{
			"for the order-relaxed commit with several workers the order of stores depends on real goroutine scheduling in this check; the oracle is schedule-independent (which mutations succeeded is read from the ledger's own log); C16/C04 enumerate the schedules themselves",
			"k = 2 in the quick tier, 3 in the thorough tier",
		}
		k := 2
		if r.Thorough() {
			k = 3
		}
		var args []any
		for h, ops := range c14Histories() {
			for p := 5; p <= len(ops); p++ {
				if ops[p-1].K == "commit" {
					continue
				}
				for _, relaxed := range []bool{false, true} {
					for _, wk := range []int{1, 2, 3} {
						args = append(args, c14Arg{T: 256, Hist: h, Prefix: p, Relaxed: relaxed, Workers: wk, K: k})
					}
					// the same through the library's own ledger adapter (BaseStorage over a key/value ledger)
					args = append(args, c14Arg{T: 256, Hist: h, Prefix: p, Relaxed: relaxed, Workers: 2, K: k, Adapter: true})
				}
			}
		}
		r.RunTaskGroup("fault sets x histories x commits x workers", "c14", args)
		// every pending write set reachable inside bounded universes (not only the hand-written corpus): the
		// fault enumeration runs as a state oracle on every transition of an explicit-state search whose
		// alphabet includes commits (so write sets over committed, cached and cold states are all reached)
		or := []string{"faults", "ev:commit1"}
		var specs []Spec
		if !r.Thorough() {
			specs = []Spec{
				{Name: "faults-mixed-T256", Kind: "mixed", T: 256, L: 3, Keys: 2, Classes: []string{"t", "limA+", "A"}, Oracles: or, Depth: 4, Extra: map[string]int{"temp": 1, "k": 2}},
				{Name: "faults-split-T256", Kind: "mixed", T: 256, L: 5, Keys: 4, Classes: []string{"limM", "t"}, Oracles: or, Depth: 5, Extra: map[string]int{"k": 1}},
			}
			for _, sc := range []string{"map-grow-lim", "arr-append-lim", "arr-mixed"} {
				specs = append(specs, TrajSpecs(r.ID, sc, 20, 4, 17, 4, 2, 256, []string{"t", "limM"}, append([]string{"k1"}, or...))...)
			}
			specs = append(specs, TrajSpecs(r.ID, "arr-mixed", 60, 30, 61, 30, 1, 256, []string{"t"}, append([]string{"k1"}, or...))...)
			specs = append(specs, TrajSpecs(r.ID, "map-grow-desc", 90, 45, 92, 45, 1, 256, []string{"limM"}, append([]string{"k1"}, or...))...)
		} else {
			specs = []Spec{
				{Name: "faults-mixed-T256", Kind: "mixed", T: 256, L: 3, Keys: 2, Classes: []string{"t", "limA+", "A", "s:M:t"}, Oracles: or, Depth: 5, Extra: map[string]int{"temp": 1, "k": 2}},
				{Name: "faults-split-T256", Kind: "mixed", T: 256, L: 6, Keys: 5, Classes: []string{"limM", "t"}, Oracles: or, Depth: 7, Extra: map[string]int{"k": 2}},
				{Name: "faults-mixed-T1024", Kind: "mixed", T: 1024, L: 3, Keys: 2, Classes: []string{"t", "limA+", "A"}, Oracles: or, Depth: 4, Extra: map[string]int{"temp": 1, "k": 2}},
			}
			for _, sc := range []string{"map-grow-lim", "map-grow-desc", "arr-append-lim", "arr-mixed", "arr-drain-mid", "map-drain-front"} {
				specs = append(specs, TrajSpecs(r.ID, sc, 100, 5, 101, 6, 2, 256, []string{"t", "limM"}, append([]string{"k1"}, or...))...)
			}
		}
		evalsBefore := r.Evals
		r.ExploreSpecs(specs)
		r.Evals += r.Stats.Inner
		r.Extra["fault_sets_injected_in_explored_states"] = r.Stats.Inner
		r.Extra["fault_sets_in_distinct_new_states"] = r.Stats.InnerNew
		r.Extra["fault_sets_in_corpus_histories"] = evalsBefore
		r.Extra["explored_states"] = r.Stats.States
		r.Extra["explored_transitions"] = r.Stats.Transitions
		r.Level = "fault_enumeration"
	}})
}

// OFaults is the fault enumeration as a state oracle: at the state reached by w's history (any space
// that can rebuild its history on a fresh world), for both commits and 1-2 workers, every set of up to k
// failing ledger mutations of the commit that would happen now is injected (same judgement as c14Run).
func OFaults(w *World, k int) error {
	if w.TwinBase == nil {
		return fmt.Errorf("harness: space does not support the fault oracle")
	}
	hist := append([]Op{}, w.History...)
	build := func() (*World, error) {
		x, err := w.TwinBase()
		if err != nil {
			return nil, err
		}
		for _, o := range hist {
			if err := x.Apply(o); err != nil {
				return nil, fmt.Errorf("rebuilding the history for fault injection fails at %s: %w", o, err)
			}
		}
		return x, nil
	}
	defer func() { ViaLedgerAdapter = false }()
	for _, relaxed := range []bool{false, true} {
		for _, wk := range []int{1, 2} {
			// workers = 2 of the deterministic commit runs through the library's LedgerBaseStorage adapter
			ViaLedgerAdapter = !relaxed && wk == 2
			if relaxed && wk > 1 {
				// with several workers the order in which the order-relaxed commit issues its ledger calls
				// depends on real goroutine scheduling in this (sequential) build: the corpus tasks above run
				// those with a schedule-independent oracle, C16/C04 enumerate the schedules; here one worker
				// keeps every execution replayable (map iteration order is canonical in this build)
				continue
			}
			tw, err := build()
			if err != nil {
				return fmt.Errorf("harness: %w", err)
			}
			tw.Ledger.MutCount = 0
			if err := tw.commitRaw(wk, relaxed); err != nil {
				return violf("fault-free commit (relaxed=%v, workers=%d) failed: %v", relaxed, wk, err)
			}
			M := tw.Ledger.MutCount
			if M == 0 {
				continue
			}
			horizon := M + 1
			var sets [][]int
			for i := 0; i < horizon; i++ {
				sets = append(sets, []int{i})
			}
			if k >= 2 {
				for i := 0; i < horizon; i++ {
					for j := i + 1; j < horizon+1; j++ {
						sets = append(sets, []int{i, j})
					}
				}
			}
			for _, set := range sets {
				w.InnerEvals++
				if msg := c14RunWith(build, wk, relaxed, set, tw.Ledger); msg != "" {
					if relaxed {
						// which slab the k-th ledger call of the order-relaxed commit hits depends on Go's map
						// iteration order: keep the message (compared across replays) free of slab identifiers
						msg = slabIDRe.ReplaceAllString(msg, "<slab>")
					}
					return violf("commit relaxed=%v workers=%d with failing ledger mutations %v (of %d): %s", relaxed, wk, set, M, msg)
				}
			}
		}
	}
	return nil
}

var slabIDRe = regexp.MustCompile(`0x[0-9a-f]+\.[0-9]+`)

var _ = sort.Ints
