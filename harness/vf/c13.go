package vf

import "fmt"

// iterSpace wraps another space and adds mutation-during-iteration operations.
type iterSpace struct {
	inner Space
	spec  Spec
}

func init() {
	for _, k := range []string{"arr-small", "map-small", "coll"} {
		kind := k
		RegisterSpace("iter+"+kind, func(s Spec) Space {
			in := s
			in.Kind = kind
			return &iterSpace{inner: MakeSpace(in), spec: s}
		})
	}
}

func (s *iterSpace) Build(path []Op) (*World, error) { return s.inner.Build(path) }
func (s *iterSpace) Check(w *World) error             { return s.inner.Check(w) }

func (s *iterSpace) Ops(w *World) []Op {
	ops := s.inner.Ops(w)
	// keep only state-changing base operations (reads are covered by the oracle)
	var out []Op
	for _, o := range ops {
		switch o.K {
		case "get", "mget", "mhas":
			continue
		}
		out = append(out, o)
	}
	c := w.Conts[0]
	n := c.Count()
	vals := c.Elems
	if c.IsMap {
		vals = c.Vals
	}
	order := make([]int, n)
	for i := range order {
		order[i] = i
	}
	if c.IsMap {
		if o2, err := w.canonMapOrder(c); err == nil {
			order = o2
		}
	}
	for p := 0; p < n; p++ {
		for _, cl := range s.spec.Classes {
			if isContClass(trimWrap(cl)) {
				continue
			}
			out = append(out, Op{K: "itermut", C: 0, I: uint64(p), V: cl})
		}
		if u, _ := Unwrap(vals[order[p]]); u != nil {
			if ch, ok := u.(*Cont); ok && ch.Count() < 3 {
				out = append(out, Op{K: "itermut", C: 0, I: uint64(p), V: "grow"})
			}
		}
	}
	return out
}

func init() {
	RegisterCheck(&CheckDef{ID: "C13", Level: "model_checking", Run: func(r *Run) {
		r.Rule = "explicit-state BFS over array / map / collision spaces (closure) and multi-level trajectory neighbourhoods; in EVERY visited state every enumeration flavour (read-only, mutable, callback forms, keys-only, values-only, NextKey/NextValue, all (start,end) ranges incl. every invalid class, loaded-values with every subset (<= 2^6, else singletons/co-singletons) of non-root slabs loaded on a fresh storage) is compared with the model's canonical sequence and with positional/keyed lookups; mutation during mutable iteration (overwrite the current element with every size class, grow a nested child past the inline limit) at every cursor position is an alphabet operation; maps: bulk pop must yield the reverse canonical order; read-only-iterator children must refuse mutation"
		r.Assumptions = []string{
			"canonical map order is computed by the harness from the digests (default digester through its public constructor, or the caller-supplied table)",
			"loaded-subset enumeration is exhaustive up to 6 non-root slabs per tree; above that: none, all, every singleton and every co-singleton",
		}
		or := []string{"sem", "iter", "iterloaded"}
		var specs []Spec
		L, K := 4, 3
		if r.Thorough() {
			L, K = 5, 4
		}
		specs = append(specs,
			Spec{Name: "iter-arr-T256", Kind: "iter+arr-small", T: 256, L: L, Classes: []string{"t", "limA", "limA+"}, Oracles: or},
			Spec{Name: "iter-arr-nested-T256", Kind: "iter+arr-small", T: 256, L: 3, Classes: []string{"t", "limA", "A:t", "s:M:t"}, Oracles: or},
			Spec{Name: "iter-map-T256", Kind: "iter+map-small", T: 256, Keys: K, Classes: []string{"t", "limM", "limM+"}, Oracles: or},
			Spec{Name: "iter-map-nested-T256", Kind: "iter+map-small", T: 256, Keys: 3, Classes: []string{"t", "limM", "A:t", "s:M:t"}, Oracles: or},
			// keys that collide on the first level under the DEFAULT (pooled) digester: deeper digests of the cursor
			// key are computed lazily while the iterator looks for its position
			Spec{Name: "iter-map-realcoll-T256", Kind: "iter+map-small", T: 256, Keys: 1, Extra: map[string]int{"realcoll": 3}, Classes: []string{"t", "s60"}, Oracles: or},
		)
		// (the closures above are explored LAST: they are the most expensive group, and the multi-level trees below
		// must not be cut off by the internal deadline on a busy machine)
		// collision groups (incl. external groups straddling slabs): every digest assignment of 3 keys
		m := 3
		as := DigestAssignments(m)
		var cs []Spec
		for ai, a := range as {
			if !r.Thorough() && ai%2 == 1 {
				continue
			}
			cs = append(cs, Spec{Name: fmt.Sprintf("iter-coll-a%d", ai), Kind: "iter+coll", T: 256, Keys: m, Classes: []string{"t", "s60"},
				Oracles: or, Digests: a, Limit: 255, Extra: map[string]int{"limit": 1}})
		}
		r.ExploreSpecs(cs)
		// multi-level trees
		var ts []Spec
		step := 6
		if r.Thorough() {
			step = 1
		}
		tor := []string{"sem", "iter", "iterloaded", "pop"}
		for _, sc := range []string{"arr-append-lim", "arr-mixed", "arr-drain-mid"} {
			ts = append(ts, TrajSpecs(r.ID, sc, 70, 1, 71, step, 1, 256, []string{"t", "limA"}, tor)...)
		}
		for _, sc := range []string{"map-grow-lim", "map-grow-desc"} {
			ts = append(ts, TrajSpecs(r.ID, sc, 96, 1, 97, step, 1, 256, []string{"t", "limM"}, tor)...)
		}
		ts = append(ts, TrajSpecs(r.ID, "map-drain-front", 180, 91, 181, step, 1, 256, []string{"t", "limM"}, tor)...)
		// children of every kind (inlined, standalone, wrapped, composite) in every slab of multi-level parents:
		// enumeration must hand out each child exactly once, in order, whatever slab and form it is stored in
		for _, sc := range []string{"arr-kids", "arr-kids-compact"} {
			ts = append(ts, TrajSpecs(r.ID, sc, 64, 4, 65, 2*step, 1, 256, []string{"t", "limA"}, tor)...)
		}
		for _, sc := range []string{"map-kids", "map-kids-compact"} {
			ts = append(ts, TrajSpecs(r.ID, sc, 64, 4, 65, 2*step, 1, 256, []string{"t", "limM"}, tor)...)
		}
		r.ExploreSpecs(ts)
		r.ExploreSpecs(specs)
	}})
}
