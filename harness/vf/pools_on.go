//go:build pools || sched

package vf

import "github.com/onflow/atree/vsched"

func init() { resetPoolsHook = vsched.ResetPools }
