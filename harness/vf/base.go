package vf

import (
	"bytes"
	"fmt"
	"sort"

	"github.com/fxamacker/cbor/v2"
	"github.com/onflow/atree"
)

// Ledger is the in-memory BaseStorage used by every driver.  It logs every call, tags it with the
// phase the harness is in ("op" or "commit"), can fail chosen mutations, and can be snapshotted.
type Ledger struct {
	Regs  map[atree.SlabID][]byte
	Index map[atree.Address]atree.SlabIndex

	Phase string // "", "commit"
	Log   []LedgerCall

	// FailAt: ordinal numbers (0-based, counted over Store/Remove calls since FaultEpoch reset) that fail.
	FailAt    map[int]bool
	MutCount  int
	FailReads map[int]bool // ordinal of Retrieve calls that fail
	ReadCount int

	// OutsideCommit counts Store/Remove calls issued while Phase != "commit".
	OutsideCommit []LedgerCall
}

type LedgerCall struct {
	Kind  string // "store", "remove", "retrieve"
	ID    atree.SlabID
	Len   int
	Phase string
	OK    bool
}

var _ atree.BaseStorage = &Ledger{}

func NewLedger() *Ledger {
	return &Ledger{
		Regs:  map[atree.SlabID][]byte{},
		Index: map[atree.Address]atree.SlabIndex{},
	}
}

type injectedFault struct{ what string }

func (e *injectedFault) Error() string { return "injected fault: " + e.what }

func IsInjected(err error) bool {
	for err != nil {
		if _, ok := err.(*injectedFault); ok {
			return true
		}
		u, ok := err.(interface{ Unwrap() error })
		if !ok {
			return false
		}
		err = u.Unwrap()
	}
	return false
}

func (l *Ledger) Retrieve(id atree.SlabID) ([]byte, bool, error) {
	n := l.ReadCount
	l.ReadCount++
	if l.FailReads[n] {
		l.Log = append(l.Log, LedgerCall{"retrieve", id, 0, l.Phase, false})
		return nil, false, &injectedFault{fmt.Sprintf("retrieve #%d", n)}
	}
	b, ok := l.Regs[id]
	return b, ok, nil
}

func (l *Ledger) Store(id atree.SlabID, data []byte) error {
	n := l.MutCount
	l.MutCount++
	c := LedgerCall{"store", id, len(data), l.Phase, true}
	if l.Phase != "commit" {
		l.OutsideCommit = append(l.OutsideCommit, c)
	}
	if l.FailAt[n] {
		c.OK = false
		l.Log = append(l.Log, c)
		return &injectedFault{fmt.Sprintf("store #%d", n)}
	}
	l.Log = append(l.Log, c)
	l.Regs[id] = append([]byte(nil), data...)
	return nil
}

func (l *Ledger) Remove(id atree.SlabID) error {
	n := l.MutCount
	l.MutCount++
	c := LedgerCall{"remove", id, 0, l.Phase, true}
	if l.Phase != "commit" {
		l.OutsideCommit = append(l.OutsideCommit, c)
	}
	if l.FailAt[n] {
		c.OK = false
		l.Log = append(l.Log, c)
		return &injectedFault{fmt.Sprintf("remove #%d", n)}
	}
	l.Log = append(l.Log, c)
	delete(l.Regs, id)
	return nil
}

func (l *Ledger) GenerateSlabID(address atree.Address) (atree.SlabID, error) {
	index := l.Index[address]
	next := index.Next()
	l.Index[address] = next
	return atree.NewSlabID(address, next), nil
}

func (l *Ledger) SegmentCounts() int { return len(l.Regs) }
func (l *Ledger) Size() int {
	t := 0
	for _, b := range l.Regs {
		t += len(b)
	}
	return t
}
func (l *Ledger) BytesRetrieved() int   { return 0 }
func (l *Ledger) BytesStored() int      { return 0 }
func (l *Ledger) SegmentsReturned() int { return 0 }
func (l *Ledger) SegmentsUpdated() int  { return 0 }
func (l *Ledger) SegmentsTouched() int  { return 0 }
func (l *Ledger) ResetReporter()        {}

// Snapshot returns a deep copy of registers and index counters (no log, no faults).
func (l *Ledger) Snapshot() *Ledger {
	n := NewLedger()
	for id, b := range l.Regs {
		n.Regs[id] = append([]byte(nil), b...)
	}
	for a, i := range l.Index {
		n.Index[a] = i
	}
	return n
}

// SortedIDs returns register IDs in ascending (owner, index) order.
func (l *Ledger) SortedIDs() []atree.SlabID {
	ids := make([]atree.SlabID, 0, len(l.Regs))
	for id := range l.Regs {
		ids = append(ids, id)
	}
	SortIDs(ids)
	return ids
}

func SortIDs(ids []atree.SlabID) {
	sort.Slice(ids, func(i, j int) bool { return ids[i].Compare(ids[j]) < 0 })
}

// EqualRegs reports the first difference between two ledgers' registers.
func EqualRegs(a, b *Ledger) (bool, string) {
	for _, id := range a.SortedIDs() {
		bb, ok := b.Regs[id]
		if !ok {
			return false, fmt.Sprintf("register %s only in first", id)
		}
		if !bytes.Equal(a.Regs[id], bb) {
			return false, fmt.Sprintf("register %s differs: %x vs %x", id, a.Regs[id], bb)
		}
	}
	for _, id := range b.SortedIDs() {
		if _, ok := a.Regs[id]; !ok {
			return false, fmt.Sprintf("register %s only in second", id)
		}
	}
	return true, ""
}

var encMode cbor.EncMode
var decMode cbor.DecMode

func init() {
	var err error
	encMode, err = cbor.EncOptions{}.EncMode()
	if err != nil {
		panic(err)
	}
	decMode, err = cbor.DecOptions{}.DecMode()
	if err != nil {
		panic(err)
	}
}

// ViaLedgerAdapter makes NewStorage put the library's own LedgerBaseStorage adapter (a BaseStorage over the
// key/value Ledger interface an execution environment implements) between the storage and the logging/faulting
// ledger.  A process-wide switch: each task that uses it sets it for its own duration (workers run one task at a time).
var ViaLedgerAdapter bool

// NewStorage opens a PersistentSlabStorage over the ledger.
func NewStorage(l *Ledger) *atree.PersistentSlabStorage {
	if ViaLedgerAdapter {
		return atree.NewPersistentSlabStorage(atree.NewLedgerBaseStorage(&ledgerFace{l}), encMode, decMode, DecodeStorable, DecodeTypeInfo)
	}
	return atree.NewPersistentSlabStorage(l, encMode, decMode, DecodeStorable, DecodeTypeInfo)
}

// ledgerFace presents a *Ledger through atree's Ledger interface (owner, key) -> value; an empty value deletes.
type ledgerFace struct{ l *Ledger }

var _ atree.Ledger = &ledgerFace{}

func faceID(owner, key []byte) (atree.SlabID, error) {
	var a atree.Address
	var ix atree.SlabIndex
	p := len(atree.LedgerBaseStorageSlabPrefix)
	if len(owner) != len(a) || len(key) != p+len(ix) || string(key[:p]) != atree.LedgerBaseStorageSlabPrefix {
		return atree.SlabID{}, fmt.Errorf("harness: unexpected ledger key %x / %x", owner, key)
	}
	copy(a[:], owner)
	copy(ix[:], key[p:])
	return atree.NewSlabID(a, ix), nil
}

func (f *ledgerFace) GetValue(owner, key []byte) ([]byte, error) {
	id, err := faceID(owner, key)
	if err != nil {
		return nil, err
	}
	b, _, err := f.l.Retrieve(id)
	return b, err
}

func (f *ledgerFace) SetValue(owner, key, value []byte) error {
	id, err := faceID(owner, key)
	if err != nil {
		return err
	}
	if len(value) == 0 {
		return f.l.Remove(id)
	}
	return f.l.Store(id, value)
}

func (f *ledgerFace) ValueExists(owner, key []byte) (bool, error) {
	id, err := faceID(owner, key)
	if err != nil {
		return false, err
	}
	_, ok := f.l.Regs[id]
	return ok, nil
}

func (f *ledgerFace) AllocateSlabIndex(owner []byte) (atree.SlabIndex, error) {
	var a atree.Address
	copy(a[:], owner)
	id, err := f.l.GenerateSlabID(a)
	if err != nil {
		return atree.SlabIndex{}, err
	}
	return id.Index(), nil
}
