package vf

import (
	"fmt"

	"github.com/onflow/atree"
	tu "github.com/onflow/atree/test_utils"
)

// DigestTable is a caller-supplied digest provider (public DigesterBuilder interface) that places
// keys at chosen digests on each of 4 levels.  Keys are Scalar model values; key n has digests
// Table[n].  Keys without an entry get digests derived from their number (all levels distinct).
type DigestTable struct {
	Table map[uint64][4]uint64
	Limit uint32 // collision limit in force (for the model's refusal rule)
	// FailAt makes the n-th call (0-based) of Digest() on the builder fail (C18).
	FailAt int
	Calls  int
}

func NewDigestTable() *DigestTable {
	return &DigestTable{Table: map[uint64][4]uint64{}, Limit: 255, FailAt: -1}
}

func (t *DigestTable) digestsOf(n uint64) [4]uint64 {
	if d, ok := t.Table[n]; ok {
		return d
	}
	return [4]uint64{n*1000 + 500, n*7 + 1, n*11 + 2, n*13 + 3}
}

type tableBuilder struct{ t *DigestTable }

func (t *DigestTable) Builder() atree.DigesterBuilder { return &tableBuilder{t} }

func (b *tableBuilder) SetSeed(uint64, uint64) {}

func (b *tableBuilder) Digest(hip atree.HashInputProvider, v atree.Value) (atree.Digester, error) {
	n := b.t.Calls
	b.t.Calls++
	if n == b.t.FailAt {
		return nil, &injectedFault{fmt.Sprintf("digester builder call #%d", n)}
	}
	for {
		s, ok := v.(tu.SomeValue)
		if !ok {
			break
		}
		v = s.Value
	}
	switch k := v.(type) {
	case tu.Uint64Value:
		return &tableDigester{d: b.t.digestsOf(uint64(k))}, nil
	case tu.StringValue:
		// strings used as keys: "K<n>…" carries the key number after 'K'
		s := k.String()
		var n uint64
		fmt.Sscanf(s, "K%d", &n)
		return &tableDigester{d: b.t.digestsOf(n)}, nil
	}
	return nil, fmt.Errorf("tableBuilder: unsupported key %T", v)
}

type tableDigester struct{ d [4]uint64 }

func (d *tableDigester) DigestPrefix(level uint) ([]atree.Digest, error) {
	if level > 4 {
		return nil, fmt.Errorf("digest prefix level %d out of range", level)
	}
	var p []atree.Digest
	for i := uint(0); i < level; i++ {
		p = append(p, atree.Digest(d.d[i]))
	}
	return p, nil
}

func (d *tableDigester) Digest(level uint) (atree.Digest, error) {
	if level >= 4 {
		return 0, fmt.Errorf("digest level %d out of range", level)
	}
	return atree.Digest(d.d[level]), nil
}

func (d *tableDigester) Reset()       {}
func (d *tableDigester) Levels() uint { return 4 }

func keyNumber(k MV) uint64 {
	switch k := k.(type) {
	case Scalar:
		return k.N
	case Str:
		var n uint64
		fmt.Sscanf(k.S, "K%d", &n)
		return n
	}
	return 0
}

// expectCollisionLimit is the property's refusal rule: inserting an absent key is refused iff its
// first-level digest is already shared by more than Limit entries with distinct second-level digests.
func (t *DigestTable) expectCollisionLimit(c *Cont, key MV) bool {
	d := t.digestsOf(keyNumber(key))
	l2 := map[uint64]bool{}
	for _, k := range c.Keys {
		kd := t.digestsOf(keyNumber(k))
		if kd[0] == d[0] {
			l2[kd[1]] = true
		}
	}
	return uint32(len(l2)) > t.Limit
}
