package vf

import (
	"encoding/json"
	"fmt"
)

// manykids: a container holding MANY inlined children in ONE slab — only possible at the larger legal slab sizes.
// The encoder indexes the per-slab table of inlined extra data with one byte; the boundary (256 / 257 entries) is
// what this task sits on.  Same-typed child ARRAYS share one table entry; child MAPS each take their own (the
// entry holds count and seed).  For every (slab size, parent kind, child kind, n): build the parent with n one-element
// inlined children, compare with the model, commit, reopen by root ID, compare again (positional / keyed reads),
// and run the register oracles (decode -> re-encode identity, content, flags; sizes).
type manyKidsArg struct {
	T         uint32 `json:"t"`
	ParentMap bool   `json:"parent_map"`
	Child     string `json:"child"` // "A:t" or "M:t"
	N         int    `json:"n"`
	Prop      string `json:"prop"`
}

func manyKidsTask(raw json.RawMessage) TaskResult {
	var a manyKidsArg
	var res TaskResult
	if err := json.Unmarshal(raw, &a); err != nil {
		res.Herr = err.Error()
		return res
	}
	pk := "array"
	if a.ParentMap {
		pk = "map"
	}
	what := fmt.Sprintf("%s of %d inlined %s children at slab size %d", pk, a.N, a.Child, a.T)
	res.Evals = 1
	res.Distinct = append(res.Distinct, what)
	res.Samples = append(res.Samples, what)
	w := NewWorld(a.T)
	w.KeyOf = func(n int) MV { return Scalar{uint64(n)} }
	first := Op{K: "newarr"}
	if a.ParentMap {
		first = Op{K: "newmap"}
	}
	if err := w.Apply(first); err != nil {
		res.Herr = err.Error()
		return res
	}
	for i := 0; i < a.N; i++ {
		o := Op{K: "append", C: 0, V: a.Child}
		if a.ParentMap {
			o = Op{K: "mset", C: 0, Key: i, V: a.Child}
		}
		if err := w.Apply(o); err != nil {
			res.Viols = append(res.Viols, fmt.Sprintf("%s: %v", what, err))
			return res
		}
	}
	if err := w.DeepCheck(); err != nil {
		res.Viols = append(res.Viols, fmt.Sprintf("%s: before commit: %v", what, err))
		return res
	}
	// all children must really share the root slab (otherwise the case is not the one described)
	wk := w.DoWalk()
	if len(wk.Recs) != 1 {
		res.Counters = map[string]int{"cases_spanning_several_slabs": 1}
	}
	if err := w.commitRaw(1, false); err != nil {
		if a.Prop == "C01" && !a.ParentMap {
			// C01: "... so it can always be reopened by that identifier" — an array that cannot be committed cannot
			res.Viols = append(res.Viols, fmt.Sprintf("%s cannot be committed: %v", what, err))
		} else {
			// no register was produced: nothing for the register oracles to judge
			res.Counters = map[string]int{"cases_the_encoder_refuses": 1}
		}
		return res
	}
	if err := RunOracles(w, Spec{Oracles: []string{"sem", "struct", "size", "rt", "reopen"}}); err != nil {
		res.Viols = append(res.Viols, fmt.Sprintf("%s: %v", what, err))
	}
	return res
}

func init() { RegisterTask("manykids", manyKidsTask) }

func manyKidsArgs(prop string) []any {
	var args []any
	for _, T := range []uint32{8192, 32768} {
		for _, pm := range []bool{false, true} {
			for _, ch := range []string{"A:t", "M:t"} {
				for _, n := range []int{200, 255, 256, 257, 258, 300} {
					args = append(args, manyKidsArg{T: T, ParentMap: pm, Child: ch, N: n, Prop: prop})
				}
			}
		}
	}
	return args
}
