package vf

import (
	"os"
	"encoding/json"
	"fmt"
	"sort"
)

// ---- enumeration of digest assignments up to order-isomorphism -------------------------------

// orderedPartitions returns all ordered set partitions of keys (lists of blocks, in order).
func orderedPartitions(keys []int) [][][]int {
	if len(keys) == 0 {
		return [][][]int{{}}
	}
	var out [][][]int
	// choose the first block: any non-empty subset, then recurse on the rest
	n := len(keys)
	for mask := 1; mask < 1<<n; mask++ {
		var blk, rest []int
		for i := 0; i < n; i++ {
			if mask&(1<<i) != 0 {
				blk = append(blk, keys[i])
			} else {
				rest = append(rest, keys[i])
			}
		}
		for _, tail := range orderedPartitions(rest) {
			p := append([][]int{blk}, tail...)
			out = append(out, p)
		}
	}
	return out
}

// assignments enumerates, for the given keys colliding on all levels < level, every observable
// assignment of digests on levels >= level.  An assignment maps key -> [4]uint64.
func assignments(keys []int, level int) []map[int][4]uint64 {
	if level == 4 || len(keys) <= 1 {
		m := map[int][4]uint64{}
		for _, k := range keys {
			m[k] = [4]uint64{}
		}
		return []map[int][4]uint64{m}
	}
	var out []map[int][4]uint64
	for _, part := range orderedPartitions(keys) {
		// cartesian product of the sub-assignments of each block
		acc := []map[int][4]uint64{{}}
		for rank, blk := range part {
			subs := assignments(blk, level+1)
			var nacc []map[int][4]uint64
			for _, a := range acc {
				for _, s := range subs {
					m := map[int][4]uint64{}
					for k, v := range a {
						m[k] = v
					}
					for k, v := range s {
						v[level] = uint64(rank+1) * 100
						m[k] = v
					}
					nacc = append(nacc, m)
				}
			}
			acc = nacc
		}
		out = append(out, acc...)
	}
	return out
}

// DigestAssignments returns all order-isomorphism classes of 4-level digest assignments of m keys.
func DigestAssignments(m int) []map[string][4]uint64 {
	keys := make([]int, m)
	for i := range keys {
		keys[i] = i
	}
	var out []map[string][4]uint64
	for _, a := range assignments(keys, 0) {
		sm := map[string][4]uint64{}
		for k, v := range a {
			sm[fmt.Sprint(k)] = v
		}
		out = append(out, sm)
	}
	return out
}

// ---- coll space: map closure under one digest assignment ------------------------------------

type collSpace struct {
	baseSpace
}

func init() {
	RegisterSpace("coll", func(s Spec) Space {
		sp := &collSpace{baseSpace{spec: s}}
		sp.seed = []Op{{K: "newmap"}}
		return sp
	})
}

func (c *collSpace) Ops(w *World) []Op {
	ops := c.eventOps()
	lookups := !c.noLookups()
	for k := 0; k < c.spec.Keys; k++ {
		for _, cl := range c.spec.Classes {
			ops = append(ops, Op{K: "mset", C: 0, Key: k, V: cl})
		}
		ops = append(ops, Op{K: "mremove", C: 0, Key: k})
		if lookups {
			ops = append(ops, Op{K: "mget", C: 0, Key: k}, Op{K: "mhas", C: 0, Key: k})
		}
	}
	if w.Conts[0].Count() > 0 {
		ops = append(ops, Op{K: "pop", C: 0})
	}
	return ops
}

// OOrder: iteration order = ascending digest tuple, insertion order among full collisions.
func OOrder(w *World) error {
	for _, c := range w.LiveRoots() {
		if !c.IsMap || w.Digests == nil || !c.Table {
			continue
		}
		if err := w.EnsureHandle(c); err != nil {
			return err
		}
		idx := make([]int, len(c.Keys))
		for i := range idx {
			idx[i] = i
		}
		sort.SliceStable(idx, func(a, b int) bool {
			da := w.Digests.digestsOf(keyNumber(c.Keys[idx[a]]))
			db := w.Digests.digestsOf(keyNumber(c.Keys[idx[b]]))
			for l := 0; l < 4; l++ {
				if da[l] != db[l] {
					return da[l] < db[l]
				}
			}
			return false // full collision: keep insertion order (stable)
		})
		it, err := c.Map.ReadOnlyIterator()
		if err != nil {
			return violf("ReadOnlyIterator: %v", err)
		}
		for pos := 0; ; pos++ {
			k, _, err := it.Next()
			if err != nil {
				return violf("iterator Next: %v", err)
			}
			if k == nil {
				if pos != len(idx) {
					return violf("iteration yields %d keys, want %d", pos, len(idx))
				}
				break
			}
			if pos >= len(idx) {
				return violf("iteration yields more than %d keys", len(idx))
			}
			if e := w.CmpValue(k, c.Keys[idx[pos]]); e != nil {
				return violf("iteration position %d yields key %v, canonical order wants %s", pos, k, MVString(c.Keys[idx[pos]]))
			}
		}
	}
	return nil
}

func init() {
	RegisterCheck(&CheckDef{ID: "C12", Level: "model_checking", Run: func(r *Run) {
		r.Rule = "for EVERY order-isomorphism class of 4-level digest assignments of the universe keys (caller-supplied digester): explicit-state BFS to closure of the map over Set(small|big)/Remove/Get/Has on every key, with collision limits 255, 0, 1, 2; every transition compared with a dictionary model; states checked by VerifyMap (same digester), an independent structure traversal, canonical iteration order, commit / reopen events inside histories (differential against the event-free history), and the refusal rule (insert of an absent key refused with a collision-limit error iff its first-level digest is already shared by more than the limit of entries with distinct second-level digests; a refused insert leaves the state key unchanged; updates never refused)"
		r.Assumptions = []string{
			"digest assignments are enumerated up to order-isomorphism (ordered refinement chains of set partitions): the code only compares digests of keys that collide on all previous levels",
			"3 keys (121 classes) in the quick tier, 4 keys (2169 classes) in the thorough tier",
		}
		m := 3
		limits := []int{255, 0, 1, 2}
		classes := []string{"t", "s60"}
		Ts := []uint32{256}
		if r.Thorough() {
			m = 4
			Ts = []uint32{256, 1024}
		}
		as := DigestAssignments(m)
		r.Extra["digest_assignment_classes"] = len(as)
		var specs []Spec
		for _, T := range Ts {
			for ai, a := range as {
				for _, lim := range limits {
					if T != 256 && lim != 255 && lim != 1 {
						continue
					}
					specs = append(specs, Spec{Name: fmt.Sprintf("coll-T%d-a%d-lim%d", T, ai, lim), Kind: "coll", T: T, Keys: m, Classes: classes,
						Oracles: []string{"sem", "struct", "order", "notrace", "reopen"}, Digests: a, Limit: lim, Extra: map[string]int{"limit": 1}})
				}
			}
		}
		r.ExploreSpecs(specs)
		r.ExploreSpecs(collMetaSpecs(r, []string{"sem", "struct", "order", "notrace", "reopen"}))
		// collision groups that were committed, evicted or decoded from their registers in the middle of a history
		// (commit / commit+reopen as alphabet operations, depth-bounded): per-operation results, content and final
		// registers must equal those of the same history without the events
		ed := 6
		if r.Thorough() {
			ed = 8
		}
		evs := collEventSpecs(r, []string{"twin", "ev:commit1", "ev:creopen"}, 1, ed)
		r.ExploreSpecs(evs)
		r.RunTaskGroup("one collision group grown to 258 keys at the default limit (3 shapes x 2 slab sizes)", "colldeep", collDeepArgs())
		r.RunTaskGroup("full index root + collapsing collision group in a filled leaf (every position x 3 sizes x either member)", "rootfull", rootFullArgs(r.Thorough()))
		// collision groups in every leaf of a map growing to three levels; every present key removed / shrunk from every seed
		// (thorough tier only: the depth-2 neighbourhoods of these 130-entry seeds cost minutes)
		if r.Thorough() {
			cg := TrajSpecs(r.ID, "map-coll-grow", 132, 106, 131, 1, 2, 256, []string{"t", "limM"}, []string{"sem", "struct", "order"})
			for i := range cg {
				cg[i].Extra["allkeys"] = 1
			}
			r.ExploreSpecs(cg)
		}
		// collisions under the DEFAULT digester (keys built to collide on the first level for every seed):
		// deeper levels come from the pooled BLAKE3 digester
		r.ExploreSpecs([]Spec{
			{Name: "realcoll-T256", Kind: "map-small", T: 256, Keys: 1, Extra: map[string]int{"realcoll": 4}, Classes: []string{"t", "s60"}, Oracles: []string{"sem", "struct", "iter", "reopen"}},
		})
	}})
}

// ---- deep collision groups at the DEFAULT limit (255) -----------------------------------------------
//
// The closures above use 3-4 keys, so the default limit is never reached there.  This task grows ONE collision
// group to N keys under the default limit, in three shapes, every operation compared with the dictionary model
// and the property's refusal rule:
//   shape 0: the keys share the first digest only (distinct second level): the 257th insert must be refused with
//            the collision-limit error, updates of present keys stay accepted, and after one removal the insert passes;
//   shape 1: the keys share the first two digests (distinct third level): one second-level entry, never refused;
//   shape 2: the keys collide on every level (digest-less list): never refused.
type collDeepArg struct {
	T     uint32 `json:"t"`
	Shape int    `json:"shape"`
	N     int    `json:"n"`
	Big   bool   `json:"big,omitempty"` // 400-byte values kept inline in the group: its slab grows beyond 64 KiB (at slab size 1024)
}

func collDeepTask(raw json.RawMessage) TaskResult {
	var a collDeepArg
	var res TaskResult
	if err := json.Unmarshal(raw, &a); err != nil {
		res.Herr = err.Error()
		return res
	}
	w := NewWorld(a.T)
	w.Digests = NewDigestTable()
	setCollisionLimit(255)
	w.KeyOf = func(n int) MV { return Scalar{uint64(n)} }
	for k := 0; k < a.N+2; k++ {
		d := [4]uint64{7, uint64(k) + 1, 1, 1}
		switch a.Shape {
		case 1:
			d = [4]uint64{7, 7, uint64(k) + 1, 1}
		case 2:
			d = [4]uint64{7, 7, 7, 7}
		}
		w.Digests.Table[uint64(k)] = d
	}
	// two keys outside the group, before and after it in digest order
	w.Digests.Table[1000] = [4]uint64{3, 1, 1, 1}
	w.Digests.Table[1001] = [4]uint64{9, 1, 1, 1}
	what := fmt.Sprintf("collision group of %d keys, shape %d, default limit", a.N, a.Shape)
	vcl := "t"
	if a.Big {
		vcl = "s400" // stays inline inside a collision group at slab size 1024 (the limit there is lower than for plain elements)
		what += ", 400-byte values"
	}
	step := func(o Op) bool {
		res.Evals++
		if err := w.Apply(o); err != nil {
			res.Viols = append(res.Viols, fmt.Sprintf("%s: after %d operations: %v", what, res.Evals, err))
			return false
		}
		return true
	}
	check := func(or ...string) bool {
		if err := RunOracles(w, Spec{Oracles: or}); err != nil {
			res.Viols = append(res.Viols, fmt.Sprintf("%s: after %d operations: %v", what, res.Evals, err))
			return false
		}
		return true
	}
	if !step(Op{K: "newmap"}) || !step(Op{K: "mset", Key: 1000, V: "t"}) || !step(Op{K: "mset", Key: 1001, V: "t"}) {
		return res
	}
	for k := 0; k < a.N; k++ {
		if !step(Op{K: "mset", Key: k, V: vcl}) {
			return res
		}
		if k%37 == 0 || k >= 250 {
			if !check("sem", "struct", "order") {
				return res
			}
		}
	}
	// updates of present keys are never refused; lookups; a removal re-opens room for one insert
	for _, k := range []int{0, 100, 254, 255} {
		if k < a.N && (!step(Op{K: "mset", Key: k, V: "s60"}) || !step(Op{K: "mget", Key: k})) {
			return res
		}
	}
	if !step(Op{K: "mremove", Key: 3}) || !step(Op{K: "mset", Key: a.N, V: "t"}) || !step(Op{K: "mset", Key: a.N + 1, V: "t"}) || !step(Op{K: "mget", Key: a.N + 1}) {
		return res
	}
	if !check("sem", "struct", "order", "reopen") {
		return res
	}
	if os.Getenv("VERIF_DEBUG") != "" {
		for _, id := range w.Ledger.SortedIDs() {
			fmt.Printf("DEBUG register %s: %d bytes\n", id, len(w.Ledger.Regs[id]))
		}
	}
	// more work for the encoders after the (possibly very large) group slab went through them: another slab,
	// another commit, everything read back from the registers
	if !step(Op{K: "mset", Key: 1000, V: "s60"}) || !step(Op{K: "mset", Key: 5, V: "t"}) || !check("sem", "rt", "reopen") {
		return res
	}
	// drain the group again (collapse of the external group back to a single element)
	for k := 0; k < a.N+2; k++ {
		if !step(Op{K: "mremove", Key: k}) {
			return res
		}
	}
	check("sem", "struct", "reach")
	res.Distinct = append(res.Distinct, what)
	res.Samples = append(res.Samples, what)
	return res
}

func init() { RegisterTask("colldeep", collDeepTask) }

func collDeepArgs() []any {
	var args []any
	for shape := 0; shape < 3; shape++ {
		args = append(args, collDeepArg{T: 256, Shape: shape, N: 258}, collDeepArg{T: 1024, Shape: shape, N: 258}, collDeepArg{T: 1024, Shape: shape, N: 258, Big: true})
	}
	return args
}

// collMetaSpecs: collision groups inside maps whose root is an index slab: 5-6 keys, two or three of
// them colliding on the first level (in the middle / at the start / at the end of the digest order),
// element sizes at the limit so that leaves are nearly full when an external group collapses.
func collMetaSpecs(r *Run, oracles []string) []Spec {
	mk := func(name string, d map[string][4]uint64, keys int, classes []string) Spec {
		return Spec{Name: name, Kind: "coll", T: 256, Keys: keys, Classes: classes, Oracles: oracles, Digests: d, Limit: 255, Extra: map[string]int{"limit": 1}}
	}
	mid := map[string][4]uint64{"0": {100, 1, 1, 1}, "1": {100, 2, 1, 1}, "2": {50, 1, 1, 1}, "3": {150, 1, 1, 1}, "4": {200, 1, 1, 1}, "5": {250, 1, 1, 1}}
	first := map[string][4]uint64{"0": {10, 1, 1, 1}, "1": {10, 2, 1, 1}, "2": {50, 1, 1, 1}, "3": {150, 1, 1, 1}, "4": {200, 1, 1, 1}, "5": {250, 1, 1, 1}}
	last := map[string][4]uint64{"0": {900, 1, 1, 1}, "1": {900, 2, 1, 1}, "2": {50, 1, 1, 1}, "3": {150, 1, 1, 1}, "4": {200, 1, 1, 1}, "5": {250, 1, 1, 1}}
	triple := map[string][4]uint64{"0": {100, 1, 1, 1}, "1": {100, 2, 1, 1}, "2": {100, 2, 5, 1}, "3": {150, 1, 1, 1}, "4": {200, 1, 1, 1}, "5": {50, 1, 1, 1}}
	specs := []Spec{
		mk("coll-meta-mid", mid, 6, []string{"t", "limM"}),
		mk("coll-meta-first", first, 5, []string{"t", "limM"}),
		mk("coll-meta-last", last, 5, []string{"t", "limM"}),
		mk("coll-meta-triple", triple, 6, []string{"t", "s60"}),
	}
	if r.Thorough() {
		specs = append(specs,
			mk("coll-meta-mid-3cls", mid, 6, []string{"t", "s60", "limM"}),
			mk("coll-meta-triple-3cls", triple, 6, []string{"t", "s60", "limM"}),
		)
	}
	return specs
}
