//go:build sched

package vf

import (
	"bytes"
	"fmt"
	"os"
	"os/exec"
	"path/filepath"
	"strconv"
	"strings"

	"github.com/onflow/atree"
)

// raceBodiesMain runs the C16 scenario bodies free (no controller, real goroutines) many times.
// Built with -race this is the complement pass: any report is a data race.
func raceBodiesMain(args []string) int {
	iters := 100
	if len(args) > 0 {
		iters, _ = strconv.Atoi(args[0])
	}
	atree.VerifSetThreshold(256)
	n := 0
	for it := 0; it < iters; it++ {
		for h, ops := range c14Histories() {
			for _, relaxed := range []bool{false, true} {
				for _, wk := range []int{2, 4} {
					a := schedArg{Scenario: "commit", Hist: h, Prefix: len(ops), Relaxed: relaxed, Workers: wk}
					body, baseline, err := commitScenario(a)
					if err != nil {
						fmt.Println("HARNESS", err)
						return 2
					}
					prepareHook()
					if it%10 == 0 {
						if got := body(); got != baseline {
							fmt.Printf("MISMATCH free-running %+v:\n got  %s\n want %s\n", a, trunc(got), trunc(baseline))
							return 1
						}
					} else {
						body()
					}
					n++
				}
			}
		}
		for _, relaxed := range []bool{false, true, false, true} {
			a := schedArg{Scenario: "commit", Hist: 1, Relaxed: relaxed, Workers: 3, Variant: 2}
			if it%2 == 1 {
				a.Variant = 3
			}
			body, baseline, err := commitScenario(a)
			if err != nil {
				fmt.Println("HARNESS", err)
				return 2
			}
			prepareHook()
			if got := body(); got != baseline {
				fmt.Printf("MISMATCH free-running %+v:\n got  %s\n want %s\n", a, trunc(got), trunc(baseline))
				return 1
			}
			n++
		}
		for _, wk := range []int{2, 4} {
			body, baseline, err := preloadScenario(schedArg{Scenario: "preload", Workers: wk})
			if err != nil {
				fmt.Println("HARNESS", err)
				return 2
			}
			if got := body(); got != baseline {
				fmt.Printf("MISMATCH free-running preload workers=%d\n", wk)
				return 1
			}
			n++
		}
		for v := range clientSets {
			body, baseline, _ := clientsScenario(schedArg{Variant: v})
			if got := body(); got != baseline {
				fmt.Printf("MISMATCH free-running clients set %v:\n got  %s\n want %s\n", clientSets[v], trunc(got), trunc(baseline))
				return 1
			}
			n++
		}
	}
	fmt.Printf("RACEBODIES OK %d\n", n)
	return 0
}

func raceComplement(r *Run) {
	exe := filepath.Join(VerifDir(), "bin", "check-race")
	if self, err := os.Executable(); err == nil {
		exe = filepath.Join(filepath.Dir(self), "check-race") // built next to this binary by run.sh
	}
	if _, err := os.Stat(exe); err != nil {
		r.HarnessErr = fmt.Errorf("race binary missing: %v", err)
		return
	}
	iters := "40"
	if r.Thorough() {
		iters = "400"
	}
	cmd := exec.Command(exe, "__racebodies", iters)
	cmd.Env = append(os.Environ(), "GORACE=halt_on_error=1 exitcode=66", "GOMAXPROCS=8")
	var out, errb bytes.Buffer
	cmd.Stdout, cmd.Stderr = &out, &errb
	err := cmd.Run()
	s := out.String() + errb.String()
	switch {
	case strings.Contains(s, "DATA RACE"):
		i := strings.Index(s, "WARNING: DATA RACE")
		rep := s[i:]
		if len(rep) > 1500 {
			rep = rep[:1500]
		}
		r.Found = append(r.Found, Found{Spec: Spec{Name: "free-running -race pass", Kind: "race"}, Msg: "data race reported by the Go race detector in the free-running pass:\n" + rep})
	case strings.Contains(s, "MISMATCH"):
		r.Found = append(r.Found, Found{Spec: Spec{Name: "free-running pass", Kind: "race"}, Msg: "free-running execution differs from the one-goroutine execution: " + trunc(s)})
	case err != nil:
		r.HarnessErr = fmt.Errorf("race pass failed: %v: %s", err, trunc(s))
	default:
		var n int
		if i := strings.Index(s, "RACEBODIES OK "); i >= 0 {
			fmt.Sscanf(s[i:], "RACEBODIES OK %d", &n)
		}
		fmt.Printf("  free-running -race pass: %d scenario executions, no report\n", n)
		r.Extra["race_pass_executions"] = n
	}
}

// histDigestMain prints a digest of the registers each corpus history commits.
func histDigestMain(args []string) int {
	atree.VerifSetThreshold(256)
	// optional warm-up of the pools with unrelated work
	if len(args) > 0 && args[0] == "warm" {
		for v := range clientSets {
			body, _, _ := clientsScenario(schedArg{Variant: v})
			body()
		}
	}
	for h, ops := range c14Histories() {
		w, err := buildHistory(256, ops)
		if err == nil {
			err = w.Commit(2, h%2 == 1)
		}
		if err != nil {
			if v, ok := err.(*Violation); ok {
				// an operation of the history misbehaves in this process: part of what is compared
				fmt.Printf("H%d OPVIOLATION %s\n", h, v.Msg)
				continue
			}
			fmt.Println("HARNESS", err)
			return 2
		}
		fmt.Printf("H%d %s\n", h, HashText(obsLedger(w.Ledger, 0, false)))
	}
	return 0
}

func crossProcess(r *Run) {
	exe, _ := os.Executable()
	var outs []string
	for _, arg := range []string{"cold", "warm", "cold"} {
		cmd := exec.Command(exe, "__histdigest", arg)
		b, err := cmd.CombinedOutput()
		if err != nil {
			r.HarnessErr = fmt.Errorf("histdigest: %v: %s", err, b)
			return
		}
		outs = append(outs, string(b))
	}
	for i := 1; i < len(outs); i++ {
		if outs[i] != outs[0] {
			r.Found = append(r.Found, Found{Spec: Spec{Name: "fresh processes", Kind: "xproc"}, Msg: "register digests differ between processes / pool warm-ups:\n" + outs[0] + "\nvs\n" + outs[i]})
			return
		}
	}
	fmt.Printf("  re-runs in 3 fresh processes (one with warmed pools): identical register digests for %d histories\n", strings.Count(outs[0], "\n"))
	r.Extra["cross_process_runs"] = 3
}
