package vf

import (
	"fmt"
	"os"
	"os/exec"
	"strconv"
	"strings"
	"sync"

	"github.com/onflow/atree"
)

// sweepSlabSizes runs, for every legal slab size, the arithmetic obligations behind the size band
// and a canned fill/drain/overwrite script with the structural oracles after every operation.
// Sharded over worker processes (the slab size is a process-wide global).
func sweepSlabSizes(r *Run) {
	lo, hi := 256, 32768
	step := 1
	if !r.Thorough() {
		// quick: every size up to 2048, then every 7th (all residues mod 2 and 3 are hit), thorough: all
		step = 7
	}
	var sizes []int
	for T := lo; T <= hi; T++ {
		if T <= 2048 || (T-lo)%step == 0 || T == hi {
			sizes = append(sizes, T)
		}
	}
	n := NumWorkers()
	var wg sync.WaitGroup
	var mu sync.Mutex
	total, ops := 0, 0
	exe, _ := os.Executable()
	for k := 0; k < n; k++ {
		var mine []string
		for i := k; i < len(sizes); i += n {
			mine = append(mine, strconv.Itoa(sizes[i]))
		}
		wg.Add(1)
		go func(mine []string) {
			defer wg.Done()
			cmd := exec.Command(exe, "__sweep", strings.Join(mine, ","))
			cmd.Env = append(os.Environ(), "GOMAXPROCS=1", "VERIF_TIER="+r.Tier)
			out, err := cmd.CombinedOutput()
			mu.Lock()
			defer mu.Unlock()
			for _, line := range strings.Split(string(out), "\n") {
				if strings.HasPrefix(line, "VIOL ") {
					r.Found = append(r.Found, Found{Spec: Spec{Name: "slab-size-sweep", Kind: "sweep"}, Msg: strings.TrimPrefix(line, "VIOL ")})
				}
				if strings.HasPrefix(line, "OK ") {
					var a, b int
					fmt.Sscanf(line, "OK %d %d", &a, &b)
					total += a
					ops += b
				}
			}
			if err != nil && r.HarnessErr == nil && !strings.Contains(string(out), "VIOL ") {
				r.HarnessErr = fmt.Errorf("sweep worker: %v: %s", err, out)
			}
		}(mine)
	}
	wg.Wait()
	fmt.Printf("  slab-size sweep: %d sizes, %d operations\n", total, ops)
	r.Extra["slab_sizes_swept"] = total
	r.Extra["sweep_operations"] = ops
	r.Stats.Transitions += ops
	r.Stats.States += total
	r.Stats.OpsRun += ops
}

// SweepMain is the worker: sizes is a comma-separated list.
func SweepMain(arg string) int {
	n, ops := 0, 0
	for _, f := range strings.Split(arg, ",") {
		T, err := strconv.Atoi(f)
		if err != nil {
			continue
		}
		k, msg := sweepOne(uint32(T))
		ops += k
		if msg != "" {
			fmt.Printf("VIOL T=%d: %s\n", T, msg)
			return 1
		}
		n++
	}
	fmt.Printf("OK %d %d\n", n, ops)
	return 0
}

func sweepOne(T uint32) (int, string) {
	w := NewWorld(T)
	target, minT, maxT, maxArr, maxMapElem, maxKey := atree.VerifThresholds()
	// arithmetic obligations
	if target != T || minT != T/2 || maxT != uint32(uint64(T)*3/2) {
		return 0, fmt.Sprintf("thresholds: target %d min %d max %d", target, minT, maxT)
	}
	if 2*maxArr+(2+16+3) > T {
		return 0, fmt.Sprintf("two maximal array elements (%d) + prefix exceed the slab size", maxArr)
	}
	if 2*(maxMapElem+8)+(2+16)+(1+1+3+3) > T {
		return 0, fmt.Sprintf("two maximal map elements (%d) + prefixes exceed the slab size", maxMapElem)
	}
	if 2*maxKey+1 > maxMapElem {
		return 0, fmt.Sprintf("key limit %d: a maximal key leaves no room for a value of the same size in element limit %d", maxKey, maxMapElem)
	}
	spec := Spec{Oracles: []string{"struct"}}
	var script []Op
	script = append(script, Op{K: "newarr"}, Op{K: "newmap"})
	for i := 0; i < 7; i++ {
		script = append(script, Op{K: "append", C: 0, V: "limA"}, Op{K: "mset", C: 1, Key: i, V: "limM"})
	}
	script = append(script, Op{K: "insert", C: 0, I: 3, V: "limA+"}, Op{K: "set", C: 0, I: 1, V: "t"}, Op{K: "mset", C: 1, Key: 100, V: "limM+"}, Op{K: "mset", C: 1, Key: 101, V: "t"})
	for i := 0; i < 5; i++ {
		script = append(script, Op{K: "remove", C: 0, I: 0}, Op{K: "mremove", C: 1, Key: i})
	}
	script = append(script, Op{K: "set", C: 0, I: 0, V: "t"}, Op{K: "mset", C: 1, Key: 5, V: "t"}, Op{K: "remove", C: 0, I: 1}, Op{K: "mremove", C: 1, Key: 6})
	w.KeyOf = KeyOfDefault
	for i, op := range script {
		if err := w.Apply(op); err != nil {
			return i, fmt.Sprintf("op %d %s: %v", i, op, err)
		}
		if i >= 2 {
			if err := OStructInRepo(w); err != nil {
				return i, fmt.Sprintf("after op %d %s: %v", i, op, err)
			}
			if err := OStructIndependent(w, w.DoWalk(), "in memory"); err != nil {
				return i, fmt.Sprintf("after op %d %s: %v", i, op, err)
			}
		}
	}
	_ = spec
	if err := RunOracles(w, Spec{Oracles: []string{"sem", "regs", "size"}}); err != nil {
		return len(script), fmt.Sprintf("final: %v", err)
	}
	nops := len(script)
	// deep fill for the smaller slab sizes: enough limit-sized elements to split an INDEX slab (the fan-out, and
	// whether it is odd or even, is a function of the slab size), positional / keyed reads of every element,
	// then a drain from the front until the tree is shallow again
	deepLimit := uint32(1100)
	if os.Getenv("VERIF_TIER") == "thorough" {
		deepLimit = 3000
	}
	if T <= deepLimit {
		for _, isMap := range []bool{false, true} {
			fan := int((maxT-12)/14) + 1
			cl, first := "limA", Op{K: "newarr"}
			if isMap {
				fan = int((maxT-12)/18) + 1
				cl, first = "limM", Op{K: "newmap"}
			}
			need := fan*3 + 12
			w2 := NewWorld(T)
			w2.KeyOf = KeyOfDefault
			if isMap {
				// caller-placed ascending digests: the tree grows at its right edge like the array's
				w2.Digests = NewDigestTable()
				w2.KeyOf = func(n int) MV { return Scalar{uint64(n)} }
				setCollisionLimit(255)
			}
			if err := w2.Apply(first); err != nil {
				return nops, err.Error()
			}
			full := func(when string) string {
				if err := w2.DeepCheck(); err != nil {
					return fmt.Sprintf("deep fill (%s, %s): %v", cl, when, err)
				}
				if err := w2.LookupCheck(); err != nil {
					return fmt.Sprintf("deep fill (%s, %s): %v", cl, when, err)
				}
				if err := OStructInRepo(w2); err != nil {
					return fmt.Sprintf("deep fill (%s, %s): %v", cl, when, err)
				}
				if err := OStructIndependent(w2, w2.DoWalk(), "in memory"); err != nil {
					return fmt.Sprintf("deep fill (%s, %s): %v", cl, when, err)
				}
				return ""
			}
			for i := 0; i < need; i++ {
				o := Op{K: "append", C: 0, V: cl}
				if isMap {
					o = Op{K: "mset", C: 0, Key: i, V: cl}
				}
				nops++
				if err := w2.Apply(o); err != nil {
					return nops, fmt.Sprintf("deep fill: %s: %v", o, err)
				}
				if i%97 == 96 {
					if m := full(fmt.Sprintf("after %d elements", i+1)); m != "" {
						return nops, m
					}
				}
			}
			if m := full(fmt.Sprintf("after all %d elements", need)); m != "" {
				return nops, m
			}
			for i := 0; i < need-fan/2; i++ {
				o := Op{K: "remove", C: 0, I: 0}
				if isMap {
					o = Op{K: "mremove", C: 0, Key: i}
				}
				nops++
				if err := w2.Apply(o); err != nil {
					return nops, fmt.Sprintf("deep drain: %s: %v", o, err)
				}
				if i%97 == 96 {
					if m := full(fmt.Sprintf("after %d removals", i+1)); m != "" {
						return nops, m
					}
				}
			}
			if m := full("after the drain"); m != "" {
				return nops, m
			}
		}
	}
	return nops, ""
}
