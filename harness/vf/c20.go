package vf

import (
	"fmt"
	"sort"

	"github.com/onflow/atree"
	tu "github.com/onflow/atree/test_utils"
)

// refValue is a caller-supplied value whose storable is a bare reference to an existing slab:
// the public API lets a caller put the same reference into two places (a corruption for C20).
type refValue struct{ id atree.SlabID }

func (r refValue) Storable(atree.SlabStorage, atree.Address, uint32) (atree.Storable, error) {
	return atree.SlabIDStorable(r.id), nil
}

// orderedStorage is a SlabStorage (public interface) over a BasicSlabStorage whose slab iterator
// yields the slabs in a chosen order: the health check must not depend on the iteration order.
type orderedStorage struct {
	*atree.BasicSlabStorage
	mode int // 0 ascending ids, 1 descending, k>=2: ascending rotated by k-1
}

func (o *orderedStorage) SlabIterator() (atree.SlabIterator, error) {
	ids := make([]atree.SlabID, 0, len(o.Slabs))
	for id := range o.Slabs {
		ids = append(ids, id)
	}
	SortIDs(ids)
	switch {
	case o.mode == 1:
		for i, j := 0, len(ids)-1; i < j; i, j = i+1, j-1 {
			ids[i], ids[j] = ids[j], ids[i]
		}
	case o.mode >= 2 && len(ids) > 0:
		r := (o.mode - 1) % len(ids)
		ids = append(append([]atree.SlabID{}, ids[r:]...), ids[:r]...)
	}
	i := 0
	return func() (atree.SlabID, atree.Slab) {
		if i >= len(ids) {
			return atree.SlabIDUndefined, nil
		}
		id := ids[i]
		i++
		return id, o.Slabs[id]
	}, nil
}

// basicFromStorage copies every live slab of a persistent storage (write set over ledger) into a basic storage.
func basicFromStorage(st *atree.PersistentSlabStorage, l *Ledger) (*atree.BasicSlabStorage, error) {
	bs := atree.NewBasicSlabStorage(encMode, decMode, DecodeStorable, DecodeTypeInfo)
	_, deltas := atree.VerifStorageLayers(st)
	ids := map[atree.SlabID]bool{}
	for id := range l.Regs {
		ids[id] = true
	}
	for id, s := range deltas {
		if s == nil {
			delete(ids, id)
		} else {
			ids[id] = true
		}
	}
	for id := range ids {
		s, ok, err := st.Retrieve(id)
		if err != nil || !ok {
			return nil, fmt.Errorf("retrieve %s: %v %v", id, ok, err)
		}
		bs.Slabs[id] = s
	}
	return bs, nil
}

// mustFailAllOrders runs the health check over a copy of st's slabs under several iteration orders.
func mustFailAllOrders(st *atree.PersistentSlabStorage, l *Ledger, expected int, what string) error {
	bs, err := basicFromStorage(st, l)
	if err != nil {
		return fmt.Errorf("harness: %w", err)
	}
	n := len(bs.Slabs)
	modes := []int{0, 1}
	for k := 2; k <= n && k <= 8; k++ {
		modes = append(modes, k)
	}
	for _, mode := range modes {
		os := &orderedStorage{BasicSlabStorage: bs, mode: mode}
		if _, err := atree.CheckStorageHealth(os, expected); err == nil {
			return violf("CheckStorageHealth succeeds although %s (slab iteration order variant %d)", what, mode)
		}
	}
	return nil
}

func loadAll(l *Ledger) (*atree.PersistentSlabStorage, error) {
	st := NewStorage(l)
	if len(ledgerOf) > 64 {
		ledgerOf = map[*atree.PersistentSlabStorage]*Ledger{}
	}
	ledgerOf[st] = l
	if err := st.BatchPreload(l.SortedIDs(), 1); err != nil {
		return nil, err
	}
	return st, nil
}

func basicFrom(l *Ledger) (*atree.BasicSlabStorage, error) {
	bs := atree.NewBasicSlabStorage(encMode, decMode, DecodeStorable, DecodeTypeInfo)
	for _, id := range l.SortedIDs() {
		s, err := atree.DecodeSlab(id, l.Regs[id], decMode, DecodeStorable, DecodeTypeInfo)
		if err != nil {
			return nil, err
		}
		bs.Slabs[id] = s
	}
	return bs, nil
}

// OHealthExact: C20's oracle on the (committed) end state of a history.
func OHealthExact(w *World) error {
	if err := w.Commit(1, false); err != nil {
		return err
	}
	L := w.Ledger
	var roots []*Cont
	rootSet := map[atree.SlabID]bool{}
	for _, c := range w.LiveRoots() {
		if !c.SID.HasTempAddress() {
			roots = append(roots, c)
			rootSet[c.SID] = true
		}
	}
	n := len(roots)
	// independent traversal on a fresh world
	base := &World{T: w.T, Ledger: L, Addr: w.Addr, Digests: w.Digests, KeyOf: w.KeyOf}
	base.St = NewStorage(L)
	base.Conts = cloneConts(w.Conts)
	for _, c := range base.Conts {
		if c.SID.HasTempAddress() && c.Parent == nil {
			base.markDead(c) // never written, by design: not part of the committed storage
		}
	}
	wk := base.DoWalk()
	if len(wk.Broken) > 0 {
		// the history is valid and its storage was committed: a broken reference here is the library's doing, and
		// no health check can succeed on this storage ("succeeds on every storage produced by valid histories")
		return violf("the storage committed by this valid history is not healthy: %s", wk.Broken[0])
	}
	children := map[atree.SlabID][]atree.SlabID{}
	for _, r := range wk.Recs {
		if r.Parent != atree.SlabIDUndefined {
			children[r.Parent] = append(children[r.Parent], r.ID)
		}
	}
	var desc func(id atree.SlabID) []atree.SlabID
	desc = func(id atree.SlabID) []atree.SlabID {
		var out []atree.SlabID
		for _, c := range children[id] {
			out = append(out, c)
			out = append(out, desc(c)...)
		}
		return out
	}
	sameSet := func(a, b []atree.SlabID) bool {
		if len(a) != len(b) {
			return false
		}
		a = append([]atree.SlabID(nil), a...)
		b = append([]atree.SlabID(nil), b...)
		SortIDs(a)
		SortIDs(b)
		for i := range a {
			if a[i] != b[i] {
				return false
			}
		}
		return true
	}

	// 1. healthy: success, exact roots, on both storages
	checkHealthy := func(st atree.SlabStorage, what string) error {
		got, err := atree.CheckStorageHealth(st, n)
		if err != nil {
			return violf("%s: CheckStorageHealth fails on a healthy storage: %v", what, err)
		}
		if len(got) != n {
			return violf("%s: CheckStorageHealth returns %d roots, want %d", what, len(got), n)
		}
		for id := range got {
			if !rootSet[id] {
				return violf("%s: CheckStorageHealth returns %s as a root", what, id)
			}
		}
		if _, err := atree.CheckStorageHealth(st, -1); err != nil {
			return violf("%s: CheckStorageHealth(-1) fails on a healthy storage: %v", what, err)
		}
		if n > 0 {
			if _, err := atree.CheckStorageHealth(st, n+1); err == nil {
				return violf("%s: CheckStorageHealth accepts a wrong expected root count", what)
			}
		}
		return nil
	}
	// 0. the storage that ran the history itself (its cache was filled by the history's own reads, commits of
	//    every kind and removals), with every register loaded: a valid history leaves a healthy storage
	{
		ids := L.SortedIDs()
		if err := w.St.BatchPreload(ids, 1); err != nil {
			return violf("preload into the history's own storage: %v", err)
		}
		// containers at the temporary address are never written; they stay in the write set, are part of
		// the storage the check iterates over, and are roots like any other
		all := w.LiveRoots()
		got, err := atree.CheckStorageHealth(w.St, len(all))
		if err != nil {
			return violf("the history's own storage after commit: CheckStorageHealth fails on a healthy storage (%d live roots, %d at the temporary address): %v", len(all), len(all)-n, err)
		}
		want := map[atree.SlabID]bool{}
		for _, c := range all {
			want[c.SID] = true
		}
		if len(got) != len(want) {
			return violf("the history's own storage after commit: CheckStorageHealth returns %d roots, want %d", len(got), len(want))
		}
		for id := range got {
			if !want[id] {
				return violf("the history's own storage after commit: CheckStorageHealth returns %s as a root", id)
			}
		}
	}
	st, err := loadAll(L.Snapshot())
	if err != nil {
		return violf("preload: %v", err)
	}
	if err := checkHealthy(st, "persistent storage"); err != nil {
		return err
	}
	bs, err := basicFrom(L)
	if err != nil {
		return violf("basic storage: %v", err)
	}
	if err := checkHealthy(bs, "basic storage"); err != nil {
		return err
	}
	for _, mode := range []int{0, 1, 2, 3} {
		if err := checkHealthy(&orderedStorage{BasicSlabStorage: bs, mode: mode}, fmt.Sprintf("basic storage, iteration order variant %d", mode)); err != nil {
			return err
		}
	}
	// all-child-references on the healthy storage
	for _, r := range wk.Recs {
		refs, broken, err := st.GetAllChildReferences(r.ID)
		if err != nil {
			return violf("GetAllChildReferences(%s): %v", r.ID, err)
		}
		if len(broken) != 0 || !sameSet(refs, desc(r.ID)) {
			return violf("GetAllChildReferences(%s) = %v / broken %v, independent traversal finds %v", r.ID, refs, broken, desc(r.ID))
		}
	}

	mustFail := func(st atree.SlabStorage, expected int, what string) error {
		if _, err := atree.CheckStorageHealth(st, expected); err == nil {
			return violf("CheckStorageHealth succeeds although %s", what)
		}
		return nil
	}

	// 2. delete a referenced slab, every referenced slab, every way
	for _, r := range wk.Recs {
		if r.Parent == atree.SlabIDUndefined {
			continue
		}
		id := r.ID
		what := fmt.Sprintf("referenced slab %s (%s, child of %s) was ", id, r.Info.Kind, r.Parent)
		st1, _ := loadAll(L.Snapshot())
		st1.Remove(id)
		if err := mustFail(st1, n, what+"removed from the storage (uncommitted)"); err != nil {
			return err
		}
		// broken reference must be reported by the all-child-references query
		for _, root := range roots {
			if wk.ByID[id].Root != root.Serial {
				continue
			}
			refs, broken, err := st1.GetAllChildReferences(root.SID)
			if err != nil {
				return violf("GetAllChildReferences(%s) after removing %s: %v", root.SID, id, err)
			}
			wantBroken := []atree.SlabID{id}
			var wantRefs []atree.SlabID
			gone := map[atree.SlabID]bool{id: true}
			for _, d := range desc(id) {
				gone[d] = true
			}
			for _, d := range desc(root.SID) {
				if !gone[d] {
					wantRefs = append(wantRefs, d)
				}
			}
			if !sameSet(broken, wantBroken) || !sameSet(refs, wantRefs) {
				return violf("GetAllChildReferences(%s) after removing %s = %v / broken %v, want %v / broken %v", root.SID, id, refs, broken, wantRefs, wantBroken)
			}
		}
		st2, _ := loadAll(L.Snapshot())
		st2.Remove(id)
		if err := st2.FastCommit(1); err != nil {
			return fmt.Errorf("harness: commit: %w", err)
		}
		if err := mustFail(st2, n, what+"removed and the removal committed"); err != nil {
			return err
		}
		l3 := L.Snapshot()
		delete(l3.Regs, id)
		st3, err := loadAll(l3)
		if err != nil {
			return fmt.Errorf("harness: preload: %w", err)
		}
		if err := mustFail(st3, n, what+"deleted from the ledger"); err != nil {
			return err
		}
		bs2, _ := basicFrom(L)
		delete(bs2.Slabs, id)
		if err := mustFail(bs2, n, what+"deleted (basic storage)"); err != nil {
			return err
		}
		for _, mode := range []int{0, 1, 2, 3} {
			if _, err := atree.CheckStorageHealth(&orderedStorage{BasicSlabStorage: bs2, mode: mode}, n); err == nil {
				return violf("CheckStorageHealth succeeds although %sdeleted (slab iteration order variant %d)", what, mode)
			}
		}
	}

	// 3. an unreferenced slab beyond the expected root count
	{
		st4, _ := loadAll(L.Snapshot())
		if _, err := atree.NewArray(st4, w.Addr, tu.NewSimpleTypeInfo(9)); err != nil {
			return fmt.Errorf("harness: %w", err)
		}
		if err := mustFail(st4, n, "an unreferenced slab was added beyond the expected root count"); err != nil {
			return err
		}
		st5, _ := loadAll(L.Snapshot())
		if _, err := atree.NewStorableSlab(st5, w.Addr, tu.NewStringValue("orphan"), 7); err != nil {
			return fmt.Errorf("harness: %w", err)
		}
		if err := mustFail(st5, n, "an unreferenced large-value slab was added"); err != nil {
			return err
		}
	}

	// 4. one slab referenced from two places (through the public API: a value whose storable is a bare reference)
	var referenced []atree.SlabID
	for _, r := range wk.Recs {
		if r.Parent != atree.SlabIDUndefined {
			referenced = append(referenced, r.ID)
		}
	}
	sort.Slice(referenced, func(i, j int) bool { return referenced[i].Compare(referenced[j]) < 0 })
	for _, target := range referenced {
		for _, host := range roots {
			if host.SID.Address() != target.Address() {
				continue
			}
			st6, _ := loadAll(L.Snapshot())
			var err error
			if host.IsMap {
				var m *atree.OrderedMap
				m, err = atree.NewMapWithRootID(st6, host.SID, w.builderFor(host))
				if err == nil {
					_, err = m.Set(CompareValue, GetHashInput, tu.Uint64Value(987654), refValue{target})
				}
			} else {
				var a *atree.Array
				a, err = atree.NewArrayWithRootID(st6, host.SID)
				if err == nil {
					err = a.Append(refValue{target})
				}
			}
			if err != nil {
				return fmt.Errorf("harness: adding a second reference: %w", err)
			}
			if err := mustFail(st6, n, fmt.Sprintf("slab %s is referenced from two places (second reference added to root %s)", target, host.SID)); err != nil {
				return err
			}
			if err := mustFailAllOrders(st6, st6Ledger(st6), n, fmt.Sprintf("slab %s is referenced from two places (second reference added to root %s)", target, host.SID)); err != nil {
				return err
			}
		}
	}

	// 5. a slab owned by a different address referenced from a container
	for _, host := range roots {
		st7, _ := loadAll(L.Snapshot())
		foreign, err := atree.NewArray(st7, OtherAddr, tu.NewSimpleTypeInfo(9))
		if host.SID.Address() == OtherAddr {
			foreign, err = atree.NewArray(st7, DefaultAddr, tu.NewSimpleTypeInfo(9))
		}
		if err != nil {
			return fmt.Errorf("harness: %w", err)
		}
		// big enough to stay a separate slab
		_, _, _, maxArr, _, _ := atree.VerifThresholds()
		for i := 0; i < 2; i++ {
			if err := foreign.Append(tu.NewStringValue(StrOfSize(maxArr-2, "foreign"))); err != nil {
				return fmt.Errorf("harness: %w", err)
			}
		}
		if host.IsMap {
			m, err := atree.NewMapWithRootID(st7, host.SID, w.builderFor(host))
			if err == nil {
				_, err = m.Set(CompareValue, GetHashInput, tu.Uint64Value(987655), foreign)
			}
			if err != nil {
				return fmt.Errorf("harness: attaching a foreign child: %w", err)
			}
		} else {
			a, err := atree.NewArrayWithRootID(st7, host.SID)
			if err == nil {
				err = a.Append(foreign)
			}
			if err != nil {
				return fmt.Errorf("harness: attaching a foreign child: %w", err)
			}
		}
		if err := mustFail(st7, n, fmt.Sprintf("root %s references a slab owned by a different address", host.SID)); err != nil {
			return err
		}
		if err := mustFailAllOrders(st7, st6Ledger(st7), n, fmt.Sprintf("root %s references a slab owned by a different address", host.SID)); err != nil {
			return err
		}
	}
	return nil
}

func init() {
	RegisterCheck(&CheckDef{ID: "C20", Level: "model_checking", Run: func(r *Run) {
		r.Rule = "explicit-state BFS over storages produced by valid histories (two roots, externalised values, standalone and inlined children, external collision groups, multi-level trees); in every visited state, with all slabs loaded on the storage that ran the history (whose alphabet contains the three commit kinds), on a fresh PersistentSlabStorage and on a BasicSlabStorage: the health check must succeed and return exactly the live roots; then EVERY single-slab corruption of every kind at every slab: delete each referenced slab (uncommitted removal, committed removal, register deleted, basic storage), add an unreferenced slab, add a second reference to each referenced slab from each same-owner root (public API), attach a foreign-owner child — each must make the health check fail; GetAllChildReferences must equal the independent traversal's (resolvable, broken) partition for every slab, healthy and after each deletion"
		r.Assumptions = []string{
			"corruptions are single-slab; 'all slabs loaded' is established by BatchPreload of every register on a fresh storage",
		}
		or := []string{"healthx"}
		orEv := []string{"healthx", "ev:commit"} // the three commit kinds inside histories
		var specs []Spec
		d := 4
		if r.Thorough() {
			d = 5
		}
		specs = append(specs,
			Spec{Name: "health-mixed-T256", Kind: "mixed", T: 256, L: 3, Keys: 2, Classes: []string{"t", "limA+", "A:limA-,limA-", "A:t"}, Oracles: orEv, Depth: d, Extra: map[string]int{"temp": 1}},
			Spec{Name: "health-wrapped-T256", Kind: "mixed", T: 256, L: 2, Keys: 2, Classes: []string{"s:limA+", "s:A:limA-,limA-", "ss:A:limA-,limA-", "s:M:limM,limM"}, Oracles: or, Depth: d},
			Spec{Name: "health-split-T256", Kind: "mixed", T: 256, L: 5, Keys: 4, Classes: []string{"limM", "t"}, Oracles: orEv, Depth: d + 2},
		)
		for ai, a := range DigestAssignments(3) {
			if !r.Thorough() && ai%6 != 0 {
				continue
			}
			specs = append(specs, Spec{Name: fmt.Sprintf("health-coll-a%d", ai), Kind: "coll", T: 256, Keys: 3, Classes: []string{"t", "s60"},
				Oracles: or, Digests: a, Limit: 255, Extra: map[string]int{"limit": 1}})
		}
		step := 10
		if r.Thorough() {
			step = 3
		}
		for _, sc := range []string{"arr-append-lim", "arr-mixed", "map-grow-lim"} {
			specs = append(specs, TrajSpecs(r.ID, sc, 60, 4, 61, step, 1, 256, []string{"limA+"}, or)...)
		}
		r.ExploreSpecs(specs)
		// storages with zero roots (the universes above always keep their root containers)
		r.RunTaskGroup("storages with no root at all: healthy, and after an unreferenced slab was added", "c20empty", c20EmptyArgs())
	}})
}

// st6Ledger returns the ledger a storage built by loadAll sits on.
func st6Ledger(st *atree.PersistentSlabStorage) *Ledger {
	return ledgerOf[st]
}

var ledgerOf = map[*atree.PersistentSlabStorage]*Ledger{}
