package vf

import (
	"bufio"
	"bytes"
	"encoding/binary"
	"encoding/hex"
	"encoding/json"
	"fmt"
	"os"
	"os/exec"
	"path/filepath"
	"runtime"
	"sort"
	"strings"
	"sync"
	"sync/atomic"
	"time"

	"github.com/onflow/atree"
)

// D5: decoding untrusted bytes (C19).

// ---- corpus ---------------------------------------------------------------------------------------

type corpusReg struct {
	ID   atree.SlabID
	Data []byte
	From string
}

// buildCorpus runs scripted histories in this process and collects every distinct register.
func buildCorpus(thorough bool) []corpusReg {
	seen := map[string]bool{}
	var out []corpusReg
	collect := func(w *World, from string) {
		if err := w.Commit(1, false); err != nil {
			return
		}
		for _, id := range w.Ledger.SortedIDs() {
			b := w.Ledger.Regs[id]
			k := string(b)
			if !seen[k] {
				seen[k] = true
				out = append(out, corpusReg{id, append([]byte(nil), b...), from})
			}
		}
	}
	run := func(T uint32, name string, digests map[uint64][4]uint64, ops []Op, every int) {
		w := NewWorld(T)
		w.KeyOf = KeyOfDefault
		if digests != nil {
			w.Digests = NewDigestTable()
			for k, v := range digests {
				w.Digests.Table[k] = v
			}
			setCollisionLimit(255)
		}
		for i, op := range ops {
			if err := w.Apply(op); err != nil {
				return
			}
			if every > 0 && i%every == 0 {
				collect(w, name)
			}
		}
		collect(w, name)
	}
	steps := 9
	if thorough {
		steps = 3
	}
	for _, sc := range []string{"arr-append-lim", "arr-mixed", "arr-drain-mid"} {
		run(256, sc, nil, Script(sc, 70), steps)
	}
	for _, sc := range []string{"map-grow-lim", "map-drain-front"} {
		run(256, sc, map[uint64][4]uint64{}, Script(sc, 64), steps)
	}
	// nested children of every kind (inlined, standalone, wrapped, composite maps of two types sharing type
	// information) in every slab of multi-level parents
	for _, sc := range []string{"arr-kids", "arr-kids-compact"} {
		run(256, sc, nil, Script(sc, 40), steps)
	}
	for _, sc := range []string{"map-kids", "map-kids-compact"} {
		run(256, sc, map[uint64][4]uint64{}, Script(sc, 40), steps)
	}
	// real hashing maps
	{
		var ops []Op
		ops = append(ops, Op{K: "newmap"})
		for i := 0; i < 30; i++ {
			ops = append(ops, Op{K: "mset", Key: i, V: []string{"t", "mid", "limM", "limM+"}[i%4]})
		}
		run(256, "map-real", nil, ops, steps)
	}
	// nested / wrapped / compact / large values
	nest := []Op{{K: "newarr"}, {K: "newmap"},
		{K: "append", C: 0, V: "A:t,t"}, {K: "append", C: 0, V: "s:A:t"}, {K: "append", C: 0, V: "M:t"}, {K: "append", C: 0, V: "Mc:t,t"}, {K: "append", C: 0, V: "Mc:t,t"},
		{K: "append", C: 0, V: "s:Mc:t"}, {K: "append", C: 0, V: "ss:t"}, {K: "append", C: 0, V: "limA+"}, {K: "append", C: 0, V: "s:limA+"}, {K: "append", C: 0, V: "huge"},
		{K: "mset", C: 1, Key: 0, V: "A:t"}, {K: "mset", C: 1, Key: 1, V: "Mc:t"}, {K: "mset", C: 1, Key: 2, V: "Mc:u5"}, {K: "mset", C: 1, Key: 100, V: "t"}, {K: "mset", C: 1, Key: 101, V: "limM+"},
		{K: "mset", C: 1, Key: 3, V: "s:M:t"}, {K: "mset", C: 1, Key: 4, V: "A:limA-,limA-"}, {K: "mset", C: 1, Key: 5, V: "u11"}, {K: "mset", C: 1, Key: 6, V: "u7"},
	}
	run(256, "nested", nil, nest, 1)
	run(1024, "nested-1024", nil, nest, 4)
	// depth 3
	run(256, "depth3", nil, []Op{{K: "newarr"}, {K: "append", C: 0, V: "A"}, {K: "append", C: 1, V: "M"}, {K: "mset", C: 2, Key: 0, V: "A:t"}, {K: "append", C: 1, V: "t"}}, 1)
	// collision groups: inline and external, several levels, list
	for ai, a := range DigestAssignments(3) {
		if !thorough && ai%10 != 0 {
			continue
		}
		d := map[uint64][4]uint64{}
		for k, v := range a {
			var n uint64
			fmt.Sscanf(k, "%d", &n)
			d[n] = v
		}
		run(256, fmt.Sprintf("coll-%d", ai), d, []Op{{K: "newmap"}, {K: "mset", Key: 0, V: "t"}, {K: "mset", Key: 1, V: "t"}, {K: "mset", Key: 2, V: "t"},
			{K: "mset", Key: 0, V: "s60"}, {K: "mset", Key: 1, V: "s60"}, {K: "mset", Key: 2, V: "s60"}}, 1)
	}
	sort.SliceStable(out, func(i, j int) bool { return len(out[i].Data) < len(out[j].Data) })
	return out
}

// toV0 rewrites a version-1 register without inlined slabs into the version-0 layout documented
// in the decoders' comments.
func toV0(c corpusReg) ([]byte, bool) {
	lay, err := ParseRegLayout(c.Data)
	if err != nil || lay.Version != 1 || lay.HasInlined {
		return nil, false
	}
	h := []byte{0x00, c.Data[1]}
	extra := c.Data[2 : 2+lay.ExtraLen]
	rest := c.Data[lay.ContentStart:]
	var out []byte
	switch lay.Kind {
	case "storable":
		return append(append(out, h...), c.Data[2:]...), true
	case "arrayData", "mapData", "collisionGroup":
		out = append(out, h...)
		if lay.Root {
			out = append(out, extra...)
			out = append(out, h...)
			return append(out, rest...), true
		}
		if lay.HasNext {
			return append(out, rest...), true // rest starts with the 16-byte next ID
		}
		out = append(out, make([]byte, 16)...)
		return append(out, rest...), true
	case "arrayMeta", "mapMeta":
		s, err := atree.DecodeSlab(c.ID, c.Data, decMode, DecodeStorable, DecodeTypeInfo)
		if err != nil {
			return nil, false
		}
		info := atree.VerifDescribeSlab(s)
		out = append(out, h...)
		if lay.Root {
			out = append(out, extra...)
			out = append(out, h...)
		}
		var cnt [2]byte
		binary.BigEndian.PutUint16(cnt[:], uint16(len(info.Children)))
		out = append(out, cnt[:]...)
		for _, ch := range info.Children {
			var idb [16]byte
			ch.SlabID.ToRawBytes(idb[:])
			out = append(out, idb[:]...)
			if lay.Kind == "arrayMeta" {
				var b [8]byte
				binary.BigEndian.PutUint32(b[:4], ch.Count)
				binary.BigEndian.PutUint32(b[4:], ch.Size)
				out = append(out, b[:]...)
			} else {
				var b [12]byte
				binary.BigEndian.PutUint64(b[:8], ch.FirstKey)
				binary.BigEndian.PutUint32(b[8:], ch.Size)
				out = append(out, b[:]...)
			}
		}
		return out, true
	}
	return nil, false
}

// ---- the decode oracle ------------------------------------------------------------------------------

var c19ID = atree.NewSlabID(DefaultAddr, atree.SlabIndex{0, 0, 0, 0, 0, 0, 0, 9})

// decodeOne exercises every entry point on one input; returns a description of a panic, or "".
func decodeOne(data []byte) (msg string) {
	defer func() {
		if r := recover(); r != nil {
			msg = fmt.Sprintf("panic: %v", r)
		}
	}()
	atree.IsRootOfAnObject(data)
	atree.HasPointers(data)
	atree.HasSizeLimit(data)
	s, err := atree.DecodeSlab(c19ID, data, decMode, DecodeStorable, DecodeTypeInfo)
	if err != nil {
		return ""
	}
	if s == nil {
		return "DecodeSlab returned neither a slab nor an error"
	}
	_ = s.ByteSize()
	_ = s.SlabID()
	for _, c := range s.ChildStorables() {
		if c != nil {
			_ = c.ByteSize()
			_ = c.ChildStorables()
		}
	}
	return ""
}

// itemBoundaries lists offsets at which a CBOR item starts (recursively), from off to the end.
func itemBoundaries(b []byte, off int, depth int, out *[]int) {
	for off < len(b) && len(*out) < 4000 {
		l, err := cborItemLen(b[off:])
		if err != nil || l == 0 {
			return
		}
		*out = append(*out, off)
		major, _, n, err := cborHead(b[off:])
		if err == nil && (major == 4 || major == 5 || major == 6) && depth < 8 {
			itemBoundaries(b[:off+l], off+n, depth+1, out)
		}
		off += l
	}
}

// structuralEdits returns the WELL-FORMED one-edit neighbours of a register: for every CBOR array reachable
// from the given top-level offsets, every element duplicated / deleted with the array's head count adjusted,
// and for every byte string whose length is a multiple of 8 (digest lists) 8 bytes appended / removed with
// the length adjusted.  These keep the CBOR syntax intact, so they reach the decoder's consistency checks
// between counts that are stored in different places.
func structuralEdits(b []byte, starts []int) [][]byte {
	var out [][]byte
	bump := func(off int, n int, arg uint64, delta int) []byte {
		// returns a copy of b with the head argument at off changed by delta, or nil if it does not fit the head
		na := int64(arg) + int64(delta)
		if na < 0 {
			return nil
		}
		c := append([]byte(nil), b...)
		ai := b[off] & 0x1f
		switch {
		case ai < 24:
			if na > 23 {
				return nil
			}
			c[off] = b[off]&0xe0 | byte(na)
		case ai == 24:
			if na > 255 {
				return nil
			}
			c[off+1] = byte(na)
		case ai == 25:
			if na > 65535 {
				return nil
			}
			binary.BigEndian.PutUint16(c[off+1:], uint16(na))
		default:
			return nil
		}
		return c
	}
	var walk func(off, depth int) int
	walk = func(off, depth int) int {
		if off >= len(b) || depth > 10 || len(out) > 4000 {
			return -1
		}
		l, err := cborItemLen(b[off:])
		if err != nil || l == 0 {
			return -1
		}
		major, arg, n, _ := cborHead(b[off:])
		switch major {
		case 2:
			if arg > 0 && arg%8 == 0 {
				if c := bump(off, n, arg, 8); c != nil {
					c = append(append(append([]byte(nil), c[:off+l]...), 0, 0, 0, 0, 0, 0, 0, 9), c[off+l:]...)
					out = append(out, c)
				}
				if c := bump(off, n, arg, -8); c != nil {
					c = append(append([]byte(nil), c[:off+l-8]...), c[off+l:]...)
					out = append(out, c)
				}
			}
		case 4:
			eo := off + n
			var elems [][2]int
			for i := uint64(0); i < arg; i++ {
				el, err := cborItemLen(b[eo:])
				if err != nil {
					return off + l
				}
				elems = append(elems, [2]int{eo, el})
				eo += el
			}
			for _, e := range elems {
				if c := bump(off, n, arg, 1); c != nil {
					c = append(append(append([]byte(nil), c[:e[0]+e[1]]...), b[e[0]:e[0]+e[1]]...), c[e[0]+e[1]:]...)
					out = append(out, c)
				}
				if c := bump(off, n, arg, -1); c != nil {
					c = append(append([]byte(nil), c[:e[0]]...), c[e[0]+e[1]:]...)
					out = append(out, c)
				}
			}
			for _, e := range elems {
				walk(e[0], depth+1)
			}
		case 5:
			eo := off + n
			for i := uint64(0); i < 2*arg; i++ {
				if nx := walk(eo, depth+1); nx < 0 {
					break
				} else {
					eo = nx
				}
			}
		case 6:
			walk(off+n, depth+1)
		}
		return off + l
	}
	for _, st := range starts {
		for off := st; off >= 0 && off < len(b); {
			off = walk(off, 0)
		}
	}
	return out
}

// regStarts: offsets at which sequences of top-level CBOR items start in a register.
func regStarts(base []byte) []int {
	lay, err := ParseRegLayout(base)
	if err != nil {
		return nil
	}
	st := []int{2}
	if lay.ContentStart > 2 {
		st = []int{}
		if lay.Root || lay.HasInlined {
			// extra data sections are walked from offset 2 up to the content start only
			st = append(st, 2)
		}
		cs := lay.ContentStart
		if lay.HasNext && lay.Version == 1 {
			cs += 16
		}
		st = append(st, cs)
	}
	return st
}

// smallDeltas: the values a byte is changed to in the pair neighbourhood: +-1, +-2 and every single-bit flip.
func smallDeltas(v byte) []byte {
	seen := map[byte]bool{v: true}
	var out []byte
	add := func(x byte) {
		if !seen[x] {
			seen[x] = true
			out = append(out, x)
		}
	}
	add(v + 1)
	add(v - 1)
	add(v + 2)
	add(v - 2)
	for bit := 0; bit < 8; bit++ {
		add(v ^ (1 << bit))
	}
	return out
}

type c19Job struct {
	Kind string `json:"kind"` // "short", "heads", "mut"
	From int    `json:"from"`
	To   int    `json:"to"`
	Len  int    `json:"len"`
	Regs []int  `json:"regs"`
}

type c19Out struct {
	Evals    int64    `json:"evals"`
	Viols    []string `json:"viols"`
	Decoded  int64    `json:"decoded"`
	MaxAlloc float64  `json:"max_alloc_per_input"`
	Samples  []string `json:"samples"`
}

var c19Progress atomic.Int64
var c19Current atomic.Value

// allocGuard measures allocation over a batch of inputs and drills down when it exceeds the bound.
type allocGuard struct {
	boundPerInput func(n int) uint64
	out           *c19Out
}

func (g *allocGuard) batch(inputs [][]byte, desc string) {
	if len(inputs) == 0 {
		return
	}
	c19Current.Store(desc)
	var m0, m1 runtime.MemStats
	runtime.ReadMemStats(&m0)
	maxLen := 0
	for _, in := range inputs {
		if msg := decodeOne(in); msg != "" && len(g.out.Viols) < 5 {
			g.out.Viols = append(g.out.Viols, fmt.Sprintf("%s on input %x (%s)", msg, in, desc))
		}
		if len(in) > maxLen {
			maxLen = len(in)
		}
		c19Progress.Add(1)
	}
	runtime.ReadMemStats(&m1)
	g.out.Evals += int64(len(inputs))
	total := m1.TotalAlloc - m0.TotalAlloc
	per := float64(total) / float64(len(inputs))
	if per > g.out.MaxAlloc {
		g.out.MaxAlloc = per
	}
	if total > g.boundPerInput(maxLen)*uint64(len(inputs)) {
		// drill down
		for _, in := range inputs {
			runtime.ReadMemStats(&m0)
			decodeOne(in)
			runtime.ReadMemStats(&m1)
			if d := m1.TotalAlloc - m0.TotalAlloc; d > g.boundPerInput(len(in)) && len(g.out.Viols) < 5 {
				g.out.Viols = append(g.out.Viols, fmt.Sprintf("decoding %d bytes allocated %d bytes (bound %d): input %x (%s)", len(in), d, g.boundPerInput(len(in)), in, desc))
			}
		}
	}
}

func c19Bound(n int) uint64 { return 64*1024 + 2048*uint64(n) }

// C19Main is the worker: reads a job (JSON) and the corpus file, prints one JSON result.
func C19Main(jobJSON, corpusFile string) int {
	runtime.GOMAXPROCS(2)
	var job c19Job
	if err := json.Unmarshal([]byte(jobJSON), &job); err != nil {
		fmt.Println(err)
		return 2
	}
	var corpus [][]byte
	if f, err := os.Open(corpusFile); err == nil {
		sc := bufio.NewScanner(f)
		sc.Buffer(make([]byte, 1<<20), 1<<24)
		for sc.Scan() {
			b, _ := hex.DecodeString(strings.TrimSpace(sc.Text()))
			corpus = append(corpus, b)
		}
		f.Close()
	}
	atree.VerifSetThreshold(256)
	out := &c19Out{}
	g := &allocGuard{boundPerInput: c19Bound, out: out}
	// watchdog: no progress for 20 s on inputs of < 64 KiB is a hang
	c19Current.Store("start")
	go func() {
		last := int64(-1)
		stuck := 0
		for {
			time.Sleep(2 * time.Second)
			p := c19Progress.Load()
			if p == last {
				stuck++
			} else {
				stuck = 0
			}
			last = p
			if stuck >= 10 {
				out.Viols = append(out.Viols, fmt.Sprintf("decoding does not return within 20 s (%v)", c19Current.Load()))
				b, _ := json.Marshal(out)
				fmt.Println(string(b))
				os.Exit(0)
			}
		}
	}()
	switch job.Kind {
	case "short":
		// all byte strings of length job.Len whose first byte is in [From,To)
		buf := make([]byte, job.Len)
		var batch [][]byte
		var rec func(pos int)
		rec = func(pos int) {
			if pos == job.Len {
				batch = append(batch, append([]byte(nil), buf...))
				if len(batch) >= 4096 {
					g.batch(batch, fmt.Sprintf("all strings of length %d", job.Len))
					batch = batch[:0]
				}
				return
			}
			lo, hi := 0, 256
			if pos == 0 {
				lo, hi = job.From, job.To
			}
			for v := lo; v < hi; v++ {
				buf[pos] = byte(v)
				rec(pos + 1)
			}
		}
		if job.Len == 0 {
			g.batch([][]byte{{}}, "empty string")
		} else {
			rec(0)
		}
		g.batch(batch, fmt.Sprintf("all strings of length %d", job.Len))
	case "heads":
		// strings of length job.Len whose first two bytes are one of the dispatching heads[From:To]
		heads := dispatchHeads()
		buf := make([]byte, job.Len)
		for hi := job.From; hi < job.To && hi < len(heads); hi++ {
			buf[0], buf[1] = heads[hi][0], heads[hi][1]
			var batch [][]byte
			var rec func(pos int)
			rec = func(pos int) {
				if pos == job.Len {
					batch = append(batch, append([]byte(nil), buf...))
					if len(batch) >= 4096 {
						g.batch(batch, fmt.Sprintf("head %x + all tails to length %d", heads[hi], job.Len))
						batch = batch[:0]
					}
					return
				}
				for v := 0; v < 256; v++ {
					buf[pos] = byte(v)
					rec(pos + 1)
				}
			}
			rec(2)
			g.batch(batch, fmt.Sprintf("head %x + all tails to length %d", heads[hi], job.Len))
		}
	case "pairs":
		// two coordinated edits: every well-formed structural edit (an element or 8 digest bytes inserted /
		// removed with the enclosing count adjusted) combined with every small change (+-1, +-2, bit flips) of
		// every byte of the result — the shape of "a count stored in one place, the items counted in another"
		for _, ri := range job.Regs {
			if ri >= len(corpus) {
				continue
			}
			base := corpus[ri]
			for ei, ed := range structuralEdits(base, regStarts(base)) {
				var batch [][]byte
				for off := 0; off < len(ed); off++ {
					for _, v := range smallDeltas(ed[off]) {
						m := append([]byte(nil), ed...)
						m[off] = v
						batch = append(batch, m)
					}
				}
				g.batch(batch, fmt.Sprintf("structural edit %d of corpus register #%d + one small byte change", ei, ri))
			}
		}
	case "mut":
		for _, ri := range job.Regs {
			if ri >= len(corpus) {
				continue
			}
			base := corpus[ri]
			if len(out.Samples) < 3 {
				out.Samples = append(out.Samples, fmt.Sprintf("register #%d (%d bytes) %x", ri, len(base), base))
			}
			if decodeOne(base) == "" {
				out.Decoded++
			}
			// truncations
			var batch [][]byte
			for l := 0; l < len(base); l++ {
				batch = append(batch, base[:l])
			}
			g.batch(batch, fmt.Sprintf("truncations of corpus register #%d", ri))
			// a small fixed-width field followed by nothing: every prefix of the register (up to 160 bytes) whose last two
			// bytes are replaced by 0, 1, 2 and 0xffff, and whose last byte by 0 / 1 (a count of children or elements that
			// says "none" / "one" / "very many" with the register ending right after the count)
			batch = nil
			for l := 1; l <= len(base) && l <= 160; l++ {
				for _, v := range []byte{0, 1} {
					if base[l-1] != v {
						m := append([]byte(nil), base[:l]...)
						m[l-1] = v
						batch = append(batch, m)
					}
				}
				if l >= 2 {
					for _, v := range [][2]byte{{0, 0}, {0, 1}, {0, 2}, {0xff, 0xff}} {
						m := append([]byte(nil), base[:l]...)
						m[l-2], m[l-1] = v[0], v[1]
						batch = append(batch, m)
					}
				}
			}
			g.batch(batch, fmt.Sprintf("prefixes of corpus register #%d ending in a small / huge fixed-width count", ri))
			// substitutions
			for off := 0; off < len(base); off++ {
				batch = batch[:0]
				for v := 0; v < 256; v++ {
					if byte(v) == base[off] {
						continue
					}
					m := append([]byte(nil), base...)
					m[off] = byte(v)
					batch = append(batch, m)
				}
				g.batch(batch, fmt.Sprintf("substitutions at offset %d of corpus register #%d", off, ri))
			}
			// item deletion / duplication
			lay, err := ParseRegLayout(base)
			if err == nil {
				var bounds []int
				itemBoundaries(base, 2, 0, &bounds)
				if lay.ContentStart > 2 {
					itemBoundaries(base, lay.ContentStart, 0, &bounds)
					if lay.HasNext && lay.Version == 1 {
						itemBoundaries(base, lay.ContentStart+16, 0, &bounds)
					}
				}
				batch = batch[:0]
				seenOff := map[int]bool{}
				for _, off := range bounds {
					if seenOff[off] {
						continue
					}
					seenOff[off] = true
					l, err := cborItemLen(base[off:])
					if err != nil {
						continue
					}
					del := append(append([]byte(nil), base[:off]...), base[off+l:]...)
					dup := append(append(append([]byte(nil), base[:off+l]...), base[off:off+l]...), base[off+l:]...)
					batch = append(batch, del, dup)
				}
				g.batch(batch, fmt.Sprintf("item deletions/duplications of corpus register #%d", ri))
				g.batch(structuralEdits(base, regStarts(base)), fmt.Sprintf("well-formed element insertions/deletions (counts adjusted) of corpus register #%d", ri))
				// tag edits: every tag the decoders know (the library's 246..255, the value wrappers and scalars of
				// the storable decoder) inserted in front of every item, and every existing tag head removed or
				// replaced by each of the others — a well-formed item of an unexpected kind at every position
				tags := []byte{0xa4, 0xa5, 0xa6, 0xa1, 0xa2, 0xa3, 0xf6, 0xf7, 0xf8, 0xf9, 0xfa, 0xfb, 0xfc, 0xfd, 0xfe, 0xff}
				batch = batch[:0]
				for off := range seenOff {
					if off >= len(base) {
						continue
					}
					for _, t := range tags {
						ins := append(append(append([]byte(nil), base[:off]...), 0xd8, t), base[off:]...)
						batch = append(batch, ins)
					}
					if base[off] == 0xd8 && off+2 <= len(base) {
						batch = append(batch, append(append([]byte(nil), base[:off]...), base[off+2:]...))
					}
				}
				g.batch(batch, fmt.Sprintf("tag insertions/removals at item boundaries of corpus register #%d", ri))
				// splices with the next registers of the corpus at item boundaries
				batch = batch[:0]
				for step := 1; step <= 3; step++ {
					other := corpus[(ri+step*7)%len(corpus)]
					var ob []int
					itemBoundaries(other, 2, 0, &ob)
					for i, a := range bounds {
						if i%3 != 0 {
							continue
						}
						for j, b := range ob {
							if j%3 != 0 {
								continue
							}
							batch = append(batch, append(append([]byte(nil), base[:a]...), other[b:]...))
						}
					}
				}
				g.batch(batch, fmt.Sprintf("splices of corpus register #%d", ri))
			}
		}
	}
	b, _ := json.Marshal(out)
	fmt.Println(string(b))
	return 0
}

// dispatchHeads: two-byte heads the decoder dispatches on (both versions, every slab kind, flag combinations).
func dispatchHeads() [][2]byte {
	var hs [][2]byte
	for _, v := range []byte{0x00, 0x10, 0x11, 0x12, 0x13} {
		for _, kind := range []byte{0x00, 0x01, 0x08, 0x09, 0x0b, 0x1f} {
			for _, fl := range []byte{0x00, 0x80, 0x40, 0xc0, 0x20, 0xa0} {
				hs = append(hs, [2]byte{v, kind | fl})
			}
		}
	}
	return hs
}

func init() {
	RegisterCheck(&CheckDef{ID: "C19", Level: "exploration", Run: runC19})
	replayHandlers["c19"] = func(rf ReplayFile) int {
		var in struct {
			Input string `json:"input"`
		}
		json.Unmarshal(rf.Data, &in)
		b, _ := hex.DecodeString(in.Input)
		atree.VerifSetThreshold(256)
		msg := decodeOne(b)
		fmt.Printf("input %x: %q\n", b, msg)
		if msg != "" {
			fmt.Printf("VIOLATION property=C19 replay=(input above)\n")
			return 1
		}
		return 0
	}
}

func runC19(r *Run) {
	r.Rule = "bounded-exhaustive inputs to DecodeSlab and the three header queries: (i) ALL byte strings of length <= 3 and all 4-byte strings (thorough: selected 5-byte) starting with one of the 180 two-byte heads the decoder dispatches on; (ii) for every distinct register of a corpus produced by the other drivers (every slab kind, inlined/compact/collision shapes, large values; plus their version-0 re-encodings): every truncation, every single-byte substitution (255 values at every offset), deletion and duplication of every CBOR item, every WELL-FORMED element insertion/deletion (array count or digest-list length adjusted), every known tag inserted in front of every item and every tag head removed, splices with other registers at item boundaries, and for the short registers the PAIR neighbourhood: every well-formed structural edit combined with every small change (+-1, +-2, single-bit flips) of every byte. Oracle: no panic (recover), call returns (20 s watchdog), allocation per input <= 64 KiB + 2 KiB per input byte (measured per batch, drilled down per input), accessors of successfully decoded slabs do not panic. distinct_nontrivial = corpus registers mutated (each contributes its full one-edit neighbourhood)"
	r.Assumptions = []string{
		"the statement quantifies over all byte strings; what is decided is the stated neighbourhood",
		"the harness's storable decoder bounds wrapper nesting (the test helper's unbounded loop is a property of the helper, not of atree)",
		"a fatal runtime error (out of memory) in a worker is reported as a violation with the batch that was being decoded",
	}
	corpus := buildCorpus(r.Thorough())
	var all []corpusReg
	all = append(all, corpus...)
	nv0 := 0
	for _, c := range corpus {
		if b, ok := toV0(c); ok {
			// keep only v0 registers the decoder accepts (the transformation is ours)
			if _, err := atree.DecodeSlab(c.ID, b, decMode, DecodeStorable, DecodeTypeInfo); err == nil {
				all = append(all, corpusReg{c.ID, b, c.From + "/v0"})
				nv0++
			}
		}
	}
	maxRegs := 1500
	if r.Thorough() {
		maxRegs = 5000
	}
	// prefer variety: keep the shortest of each (kind, flags, source)
	var chosen []corpusReg
	byClass := map[string]int{}
	for _, c := range all {
		lay, _ := ParseRegLayout(c.Data)
		cls := fmt.Sprintf("%s/%x/%v/%s", lay.Kind, c.Data[:2], len(c.Data)/64, c.From)
		if byClass[cls] >= 6 && !r.Thorough() {
			continue
		}
		byClass[cls]++
		chosen = append(chosen, c)
	}
	if len(chosen) > maxRegs {
		chosen = chosen[:maxRegs]
	}
	dir := filepath.Join(VerifDir(), "build")
	os.MkdirAll(dir, 0o755)
	cf := filepath.Join(dir, "c19-corpus.hex")
	var sb strings.Builder
	for _, c := range chosen {
		sb.WriteString(hex.EncodeToString(c.Data) + "\n")
	}
	os.WriteFile(cf, []byte(sb.String()), 0o644)
	fmt.Printf("  corpus: %d distinct registers collected (%d v0 re-encodings accepted), %d chosen\n", len(all), nv0, len(chosen))
	r.Extra["corpus_registers"] = len(chosen)
	r.Extra["corpus_v0_registers"] = nv0

	var jobs []c19Job
	jobs = append(jobs, c19Job{Kind: "short", Len: 0}, c19Job{Kind: "short", Len: 1, From: 0, To: 256}, c19Job{Kind: "short", Len: 2, From: 0, To: 256})
	for f := 0; f < 256; f += 16 {
		jobs = append(jobs, c19Job{Kind: "short", Len: 3, From: f, To: f + 16})
	}
	nh := len(dispatchHeads())
	for f := 0; f < nh; f += 12 {
		jobs = append(jobs, c19Job{Kind: "heads", Len: 4, From: f, To: f + 12})
	}
	if r.Thorough() {
		for f := 0; f < nh; f += 30 {
			jobs = append(jobs, c19Job{Kind: "heads", Len: 5, From: f, To: f + 1})
		}
	}
	per := 4
	for i := 0; i < len(chosen); i += per {
		var regs []int
		for j := i; j < i+per && j < len(chosen); j++ {
			regs = append(regs, j)
		}
		jobs = append(jobs, c19Job{Kind: "mut", Regs: regs})
	}
	// pair neighbourhood on the short registers, those with a shared extra-data section first
	maxPairs, maxLen := 90, 200
	if r.Thorough() {
		maxPairs, maxLen = 600, 320
	}
	var pairRegs []int
	for pass := 0; pass < 2; pass++ {
		for i, c := range chosen {
			lay, err := ParseRegLayout(c.Data)
			if err != nil || len(c.Data) > maxLen || len(pairRegs) >= maxPairs {
				continue
			}
			if (pass == 0) == lay.HasInlined {
				pairRegs = append(pairRegs, i)
			}
		}
	}
	for i := 0; i < len(pairRegs); i += 2 {
		j := i + 2
		if j > len(pairRegs) {
			j = len(pairRegs)
		}
		jobs = append(jobs, c19Job{Kind: "pairs", Regs: pairRegs[i:j]})
	}
	r.Extra["registers_with_pair_neighbourhood"] = len(pairRegs)
	exe, _ := os.Executable()
	sem := make(chan struct{}, NumWorkers())
	var wg sync.WaitGroup
	var mu sync.Mutex
	var totalEvals, decoded int64
	maxAlloc := 0.0
	nViol := 0
	for _, job := range jobs {
		if time.Now().After(r.Deadline()) {
			r.Stats.Exhaustive = false
			r.Stats.CapHit = "deadline reached before all decode jobs were started"
			break
		}
		sem <- struct{}{}
		wg.Add(1)
		go func(job c19Job) {
			defer wg.Done()
			defer func() { <-sem }()
			jb, _ := json.Marshal(job)
			cmd := exec.Command("bash", "-c", `ulimit -v 6000000; exec "$0" __c19 "$1" "$2"`, exe, string(jb), cf)
			cmd.Env = append(os.Environ(), "GOMAXPROCS=2", "GOGC=200")
			var stdout, stderr bytes.Buffer
			cmd.Stdout, cmd.Stderr = &stdout, &stderr
			err := cmd.Run()
			mu.Lock()
			defer mu.Unlock()
			var o c19Out
			line := strings.TrimSpace(stdout.String())
			if i := strings.LastIndexByte(line, '\n'); i >= 0 {
				line = line[i+1:]
			}
			if jerr := json.Unmarshal([]byte(line), &o); jerr != nil || err != nil {
				tail := stderr.String()
				if len(tail) > 600 {
					tail = tail[:600]
				}
				nViol++
				if len(r.Found) < 5 {
					r.Found = append(r.Found, Found{Spec: Spec{Name: "decode", Kind: "c19"}, Msg: fmt.Sprintf("decoder worker died (fatal runtime error?) in job %s: %v: %s", jb, err, tail)})
				}
				return
			}
			totalEvals += o.Evals
			decoded += o.Decoded
			if o.MaxAlloc > maxAlloc {
				maxAlloc = o.MaxAlloc
			}
			for _, v := range o.Viols {
				nViol++
				if len(r.Found) < 5 {
					r.Found = append(r.Found, Found{Spec: Spec{Name: "decode", Kind: "c19"}, Msg: v})
				}
			}
			for _, s := range o.Samples {
				if len(r.Stats.Samples) < 8 {
					if len(s) > 300 {
						s = s[:300] + "…"
					}
					r.Stats.Samples = append(r.Stats.Samples, s)
				}
			}
		}(job)
	}
	wg.Wait()
	r.Evals = int(totalEvals)
	for i := range chosen {
		r.Distinct[fmt.Sprint(i)] = true
	}
	r.Extra["max_alloc_bytes_per_input_over_batches"] = maxAlloc
	r.Extra["corpus_registers_decoding_ok"] = decoded
	fmt.Printf("  decode inputs evaluated: %d (corpus registers %d, max batch-average allocation %.0f bytes/input)\n", totalEvals, len(chosen), maxAlloc)
	_ = nViol
}
