package vf

import (
	"fmt"
	"strings"
)

// d1Spaces returns the shared container state spaces (DESIGN §4.4) with the given oracle set.
// bias selects the value alphabet: "edge" (sizes at the inline limit / half slab), "aux" (what
// allocates auxiliary slabs), "kinds" (every CBOR width, wrappers, nested containers).
func d1Spaces(r *Run, oracles []string, bias string) (closure []Spec, traj []Spec) {
	arrCls := []string{"t", "mid", "limA", "limA+"}
	nestCls := []string{"t", "limA", "A", "M:t", "s:A:t"}
	mapCls := []string{"t", "limM", "limM+"}
	mapNest := []string{"t", "s10", "A", "s:M:t"}
	switch bias {
	case "edge":
		arrCls = []string{"t", "third", "limA-", "limA", "limA+"}
		mapCls = []string{"t", "third", "limM", "limM+"}
	case "aux":
		arrCls = []string{"t", "limA", "limA+", "huge"}
		nestCls = []string{"t", "limA+", "A:limA-", "M:limM", "s:A:t"}
		mapCls = []string{"t", "limM+", "huge"}
		mapNest = []string{"t", "limM+", "A:limA-", "s:M:t"}
	case "kinds":
		arrCls = []string{"t", "u5", "u11", "s10", "s:t", "ss:t", "limSA", "limSA+"}
		nestCls = []string{"t", "A:t", "M:t", "Mc:t,t", "s:A:t", "s:Mc:t"}
		mapCls = []string{"t", "u4", "u7", "s:s10", "limM"}
		mapNest = []string{"t", "A:t,t", "Mc:t", "s:Mc:t,t", "M:t"}
	}
	L, K := 5, 4
	if r.Thorough() {
		L, K = 6, 5
	}
	if bias == "kinds" && !r.Thorough() {
		L = 4
	}
	closure = []Spec{
		{Name: "arr-small-T256", Kind: "arr-small", T: 256, L: L, Classes: arrCls, Oracles: oracles},
		{Name: "arr-nested-T256", Kind: "arr-small", T: 256, L: 4, Classes: nestCls, Oracles: oracles},
		{Name: "map-small-T256", Kind: "map-small", T: 256, Keys: K, Classes: mapCls, Oracles: oracles},
		{Name: "map-nested-T256", Kind: "map-small", T: 256, Keys: 2, Extra: map[string]int{"kLim": 1}, Classes: mapNest, Oracles: oracles},
	}
	if bias == "kinds" {
		// same-typed composite maps with three fields in one slab (compact encoding; each map has its own
		// seed, hence its own field order relative to the shared key list)
		closure = append(closure,
			Spec{Name: "arr-compact-T256", Kind: "arr-small", T: 256, L: 3, Classes: []string{"Mc:t,u5,s10", "t"}, Oracles: oracles},
			Spec{Name: "map-compact-T256", Kind: "map-small", T: 256, Keys: 3, Classes: []string{"Mc:t,u5,s10", "t"}, Oracles: oracles},
			// composite children in a container that spans several data slabs (the compact form in a slab that
			// has a sibling link / is not the root)
			Spec{Name: "arr-compact-split-T256", Kind: "arr-small", T: 256, L: 5, Classes: []string{"Mc:t,u5", "limA"}, Oracles: oracles},
			Spec{Name: "map-compact-split-T256", Kind: "map-small", T: 256, Keys: 4, Classes: []string{"Mc:t,u5", "limM"}, Oracles: oracles},
		)
	}
	if r.Thorough() {
		closure = append(closure,
			Spec{Name: "arr-small-T512", Kind: "arr-small", T: 512, L: L, Classes: arrCls, Oracles: oracles},
			Spec{Name: "map-small-T1024", Kind: "map-small", T: 1024, Keys: K, Classes: mapCls, Oracles: oracles},
			Spec{Name: "arr-nested-T1024", Kind: "arr-small", T: 1024, L: 4, Classes: nestCls, Oracles: oracles},
		)
	}
	tor := append([]string{"pop"}, oracles...)
	acl := []string{"t", "limA"}
	mcl := []string{"t", "limM"}
	if bias == "aux" {
		acl = []string{"t", "limA+"}
		mcl = []string{"t", "limM+"}
	}
	step, amax, mmax := 3, 70, 90
	Ts := []uint32{256}
	if r.Thorough() {
		step, amax, mmax = 1, 100, 120
		Ts = []uint32{256, 512}
	}
	for _, T := range Ts {
		for _, sc := range []string{"arr-append-lim", "arr-front-mid", "arr-mixed"} {
			traj = append(traj, TrajSpecs(r.ID, sc, amax, 1, amax+1, step, 1, T, acl, tor)...)
			traj = append(traj, TrajSpecs(r.ID, sc, amax, 2, 14, 4, 2, T, acl, tor)...)
		}
		for _, sc := range []string{"arr-drain-front", "arr-drain-back", "arr-drain-mid", "arr-shrink-overwrite"} {
			traj = append(traj, TrajSpecs(r.ID, sc, 2*amax-20, amax-9, 2*amax-19, step, 1, T, acl, tor)...)
		}
		for _, sc := range []string{"map-grow-lim", "map-grow-desc"} {
			traj = append(traj, TrajSpecs(r.ID, sc, mmax, 1, mmax+1, step, 1, T, mcl, tor)...)
			traj = append(traj, TrajSpecs(r.ID, sc, mmax, 2, 14, 4, 2, T, mcl, tor)...)
		}
		for _, sc := range []string{"map-drain-front", "map-drain-back", "map-shrink-overwrite"} {
			traj = append(traj, TrajSpecs(r.ID, sc, 2*mmax-20, mmax-9, 2*mmax-19, step, 1, T, mcl, tor)...)
		}
		// collision groups (inline, then external once their members are big) spread over every leaf of a growing
		// map, up to three levels; from every seed EVERY present key is removed / shrunk (a collapsing group makes its
		// leaf GROW, which can split it and push its parent — possibly a full root — over the limit)
		// (thorough tier only: the depth-2 neighbourhoods of these 130-entry seeds cost minutes)
		if r.Thorough() && T == 256 {
			cg := TrajSpecs(r.ID, "map-coll-grow", 132, 106, 131, 1, 2, T, mcl, tor)
			for i := range cg {
				cg[i].Extra["allkeys"] = 1
			}
			traj = append(traj, cg...)
		}
		// nested children (inlined, standalone, wrapped, composite/compact of two types) spread over every
		// slab of multi-level parents: every seed state and its depth-1 neighbourhood
		kstep := 2 * step
		for _, sc := range []string{"arr-kids", "arr-kids-compact"} {
			traj = append(traj, TrajSpecs(r.ID, sc, 64, 3, 65, kstep, 1, T, acl, tor)...)
		}
		for _, sc := range []string{"map-kids", "map-kids-compact"} {
			traj = append(traj, TrajSpecs(r.ID, sc, 64, 3, 65, kstep, 1, T, mcl, tor)...)
		}
	}
	return closure, traj
}

// collSpecs: one closure per digest assignment of 3 keys (inline and external collision groups,
// groups on deeper levels, digest-less lists) with the given oracles.
func collSpecs(r *Run, oracles []string, classes []string) []Spec {
	var cs []Spec
	for ai, a := range DigestAssignments(3) {
		cs = append(cs, Spec{Name: fmt.Sprintf("coll-T256-a%d", ai), Kind: "coll", T: 256, Keys: 3, Classes: classes,
			Oracles: oracles, Digests: a, Limit: 255, Extra: map[string]int{"limit": 1}})
	}
	return cs
}

// collCompactSpecs: same-typed composite maps (compact form, shared type information) as the VALUES of colliding
// keys: inside inline groups, external group slabs and digest-less lists (every step-th digest assignment).
func collCompactSpecs(r *Run, oracles []string, step int) []Spec {
	var cs []Spec
	for ai, a := range DigestAssignments(3) {
		if ai%step != 0 {
			continue
		}
		cs = append(cs, Spec{Name: fmt.Sprintf("coll-compact-T256-a%d", ai), Kind: "coll", T: 256, Keys: 3, Classes: []string{"Mc:t,u5", "s60"},
			Oracles: oracles, Digests: a, Limit: 255, Extra: map[string]int{"limit": 1}})
	}
	return cs
}

// nestedFor returns the nested-container universe (children mutated through handles) with the given oracles.
func nestedFor(r *Run, oracles []string) []Spec {
	specs := nestedSpecs(r, false, oracles)
	var out []Spec
	for _, sp := range specs {
		if !r.Thorough() && (sp.Name == "nested-arr-root" || sp.Name == "nested-map-root") {
			sp.Extra["nosettype"] = 1
		}
		if !r.Thorough() && r.ID != "C05" && (sp.Name == "nested-parent-split" || sp.Name == "nested-parent-split-map") {
			continue // the parent-splitting universes are the expensive ones; C05 and C10 run them in the quick tier
		}
		if !r.Thorough() && strings.HasPrefix(sp.Name, "nested-fit-") {
			// children exactly on / one over the inline limit: all five universes in C10; the two mixed-kind ones
			// where structure and sizes are judged (C05, C06); none in C07 / C09 quick
			if r.ID == "C07" || r.ID == "C09" || (sp.Name != "nested-fit-arr-map" && sp.Name != "nested-fit-map-arr") {
				continue
			}
		}
		out = append(out, sp)
	}
	return out
}

// bulkBuiltArgs: containers produced by the bulk constructors (same driver as C17): all element streams up
// to length 7, every length up to 70 with all tails of 3, maps built from source maps up to 40 entries.
func bulkBuiltArgs() []any {
	var args []any
	args = append(args, c17Arg{T: 256, Mode: "arr-streams", Prefix: nil, MaxLen: 1})
	for _, a := range c17Classes {
		for _, b := range c17Classes {
			args = append(args, c17Arg{T: 256, Mode: "arr-streams", Prefix: []string{a, b}, MaxLen: 7})
		}
	}
	for _, a := range []string{"t", "limA", "A:t", "Mc:t,u5", "s:A:h,h", "M:t"} {
		args = append(args, c17Arg{T: 256, Mode: "arr-streams-nested", Prefix: []string{a}, MaxLen: 5})
	}
	for _, a := range mapStreamClasses {
		for _, b := range mapStreamClasses {
			args = append(args, c17Arg{T: 256, Mode: "map-streams", Prefix: []string{a, b}, MaxLen: 5})
		}
	}
	for sh := 0; sh < 16; sh++ {
		// byte arrays converted from byte slices (every length, every estimated-size argument)
		args = append(args, c17Arg{T: 256, Mode: "bytes", From: 0, To: 150, Shard: sh, Shards: 16})
		args = append(args, c17Arg{T: 256, Mode: "arr-tails", From: 8, To: 70, Tail: 3, Shard: sh, Shards: 16})
		args = append(args, c17Arg{T: 256, Mode: "map-batch", From: 0, To: 40, Shard: sh, Shards: 16})
	}
	return args
}

func d1Assumptions() []string {
	return []string{
		"closure results hold for every history that stays inside the bounded universe (element/key bound, value size classes); trajectory neighbourhoods are depth-bounded around cold-started seed states",
		"value contents are abstracted to (kind, encoded size) in the state key; slab IDs are renamed by first visit; digests are named by the universe keys they belong to",
	}
}

func init() {
	RegisterCheck(&CheckDef{ID: "C05", Level: "model_checking", Run: func(r *Run) {
		r.Rule = "explicit-state BFS over array/map/nested spaces with edge-biased sizes; after every transition: in-repo VerifyArray/VerifyMap(+serialization) AND an independent traversal checking size band, per-element limits, >=2 children in an index root, header copies, sibling links, digest order — in memory and again on the slabs decoded from the committed registers; plus a sweep of all legal slab sizes; distinct_nontrivial = distinct canonical states"
		r.Assumptions = d1Assumptions()
		or := []string{"sem", "struct", "regs"}
		cl, tr := d1Spaces(r, or, "edge")
		r.ExploreSpecs(cl)
		r.ExploreSpecs(tr)
		r.ExploreSpecs(collSpecs(r, or, []string{"t", "s60", "limM"}))
		r.ExploreSpecs(collMetaSpecs(r, or))
		r.ExploreSpecs(nestedFor(r, or))
		// containers produced by the bulk constructors are reachable containers too: all element streams
		// up to length 7, every length with all tails, maps built from sources (same driver as C17)
		args := bulkBuiltArgs()
		r.RunTaskGroup("bulk-built arrays and maps (structure)", "c17", args)
		// a removal that makes a leaf GROW (collision group collapsing) while the index root is full
		r.RunTaskGroup("full index root + collapsing collision group in a filled leaf (every position x 3 sizes x either member)", "rootfull", rootFullArgs(r.Thorough()))
		sweepSlabSizes(r)
	}})
	RegisterCheck(&CheckDef{ID: "C06", Level: "model_checking", Run: func(r *Run) {
		r.Rule = "explicit-state BFS over array/map/nested spaces with all element kinds; after every transition the state is committed and for every register: bytes written minus the two extra-data sections (measured by the harness's own CBOR item skipper) == reported size, allowing only the omitted 16-byte sibling link and (<=) compact maps; decoded slab reports the same size as the in-memory slab; header sizes equal prefix + sum of element sizes"
		r.Assumptions = d1Assumptions()
		or := []string{"sem", "struct", "size"}
		cl, tr := d1Spaces(r, or, "kinds")
		r.ExploreSpecs(cl)
		r.ExploreSpecs(tr)
		r.ExploreSpecs(collSpecs(r, or, []string{"t", "s60", "A:t"}))
		r.ExploreSpecs(collCompactSpecs(r, or, 4))
		r.ExploreSpecs(nestedFor(r, append([]string{"events"}, or...)))
		// scalars exactly on the CBOR width boundaries (the size helpers switch encodings there)
		bcl := []string{"b23", "b24", "b255", "b256", "b65535", "b65536", "b4294967295", "b4294967296", "b18446744073709551615"}
		r.ExploreSpecs([]Spec{
			{Name: "arr-width-boundaries-T256", Kind: "arr-small", T: 256, L: 2, Classes: bcl, Oracles: or},
			{Name: "map-width-boundaries-T256", Kind: "map-small", T: 256, Keys: 2, Classes: bcl, Oracles: or},
		})
		// containers produced by the bulk constructors report sizes too (root/non-root prefix conversion
		// when the built leaves are merged into a root)
		r.RunTaskGroup("bulk-built arrays and maps (sizes)", "c17", bulkBuiltArgs())
	}})
	RegisterCheck(&CheckDef{ID: "C07", Level: "model_checking", Run: func(r *Run) {
		r.Rule = "explicit-state BFS over array/map/nested spaces; every register produced by a commit after every transition is decoded and re-encoded (byte identity), its decoded content is compared element-by-element with the in-memory slab (except compact maps), and the three header flags are compared with the harness's own reading of the content"
		r.Assumptions = d1Assumptions()
		or := []string{"sem", "rt", "reopen"}
		cl, tr := d1Spaces(r, or, "kinds")
		r.ExploreSpecs(cl)
		r.ExploreSpecs(tr)
		r.ExploreSpecs(collSpecs(r, or, []string{"t", "s60", "A:t"}))
		r.ExploreSpecs(collCompactSpecs(r, or, 4))
		r.ExploreSpecs(nestedFor(r, append([]string{"events"}, or...)))
		// registers with 200-300 inlined children (one-byte index into the slab's table of inlined extra data)
		r.RunTaskGroup("containers with 200-300 inlined children in one slab (slab sizes 8192, 32768)", "manykids", manyKidsArgs("C07"))
	}})
	RegisterCheck(&CheckDef{ID: "C09", Level: "model_checking", Run: func(r *Run) {
		r.Rule = "explicit-state BFS over array/map/nested spaces biased to auxiliary slabs (externalised values/keys, children crossing the inline limit, splits/merges/promotions, bulk pops); the harness disposes of every value handed back; after every transition and again after commit: IDs in (write set ∪ ledger) == IDs reachable by an independent traversal from the live roots, every slab referenced once, one owner per tree; CheckStorageHealth must agree after reopen"
		r.Assumptions = d1Assumptions()
		or := []string{"sem", "reach", "health"}
		cl, tr := d1Spaces(r, or, "aux")
		for i := range cl {
			if cl[i].Kind == "arr-small" {
				// rejected requests are part of histories too: out-of-range Get/Set/Insert/Remove with EVERY value
				// class (values too large to inline, nested containers) must not leave a slab behind
				cl[i].Oracles = append(append([]string{}, cl[i].Oracles...), "oob")
				if cl[i].Extra == nil {
					cl[i].Extra = map[string]int{}
				}
				cl[i].Extra["ooball"] = 1
			}
		}
		r.ExploreSpecs(cl)
		r.ExploreSpecs(tr)
		r.ExploreSpecs(collSpecs(r, or, []string{"t", "s60", "limM+"}))
		r.ExploreSpecs(nestedFor(r, or))
		// collision groups whose members hold slabs of their own (externalised values), with commits and reopenings
		// inside the history: a removed member's slab is disposed of, the group's committed form must not keep it
		var cev []Spec
		for ai, a := range DigestAssignments(3) {
			if ai%3 != 0 && !r.Thorough() {
				continue
			}
			cev = append(cev, Spec{Name: fmt.Sprintf("reach-coll-events-a%d", ai), Kind: "coll", T: 256, Keys: 3, Classes: []string{"t", "limM+"},
				Oracles: []string{"sem", "reach", "health", "ev:commit1", "ev:creopen"}, Digests: a, Limit: 255, Depth: 5, Extra: map[string]int{"limit": 1}})
		}
		r.ExploreSpecs(cev)
		r.ExploreSpecs([]Spec{
			// values far larger than any slab (> 64 KiB), under inline and externalised keys
			{Name: "reach-giant-map", Kind: "map-small", T: 256, Keys: 1, Extra: map[string]int{"kLim": 1}, Classes: []string{"t", "giant"}, Oracles: or},
			{Name: "reach-giant-arr", Kind: "arr-small", T: 256, L: 2, Classes: []string{"t", "giant"}, Oracles: or},
			{Name: "reach-rej-nested-arr", Kind: "nested", T: 256, Keys: 2, Classes: []string{"t", "h", "limA+", "A"}, Oracles: []string{"sem", "reach"},
				Extra: map[string]int{"rootmap": 0, "lr": 2, "lc": 2, "maxc": 2, "depth": 2, "nosettype": 1, "rej": 1, "detach": 1}},
		})
	}})
}
