package vf

import (
	"fmt"

	"github.com/onflow/atree"
)

// nested: closure over a root container holding nested containers that are mutated through
// handles (C10), detached and re-attached (C11).

type nestedSpace struct {
	baseSpace
	rootMap  bool
	lr, lc   int
	maxc     int
	maxDepth int
	keys     int
	detach   bool
}

func init() {
	RegisterSpace("nested", func(s Spec) Space {
		sp := &nestedSpace{baseSpace: baseSpace{spec: s}}
		sp.rootMap = s.Extra["rootmap"] == 1
		sp.lr, sp.lc = s.Extra["lr"], s.Extra["lc"]
		sp.maxc, sp.maxDepth = s.Extra["maxc"], s.Extra["depth"]
		sp.keys = s.Keys
		if sp.keys == 0 {
			sp.keys = 2
		}
		sp.detach = s.Extra["detach"] == 1
		if sp.rootMap {
			sp.seed = []Op{{K: "newmap"}}
		} else {
			sp.seed = []Op{{K: "newarr"}}
		}
		return sp
	})
}

func (s *nestedSpace) Build(path []Op) (*World, error) {
	w := s.newWorld()
	// after a detachment the harness continues either with the handle a caller gets from the value handed back
	// (keeping the old handle as a stale one), or — "oldhandle" — with the very handles it held before, of the
	// detached container and of its descendants (what a caller that keeps its wrapper objects does)
	w.TrackStale = s.detach && s.spec.Extra["oldhandle"] != 1
	w.OpMaps = func(c *Cont) bool { return true }
	if s.spec.Has("crash") || s.spec.Has("twin") || s.spec.Has("faults") {
		w.KeyStorage = true
		w.TrackCommits = s.spec.Has("crash")
		w.TwinBase = func() (*World, error) {
			x := s.newWorld()
			x.TrackStale = s.detach && s.spec.Extra["oldhandle"] != 1
			x.OpMaps = func(c *Cont) bool { return true }
			return x, nil
		}
	}
	for _, op := range s.seed {
		if err := w.Apply(op); err != nil {
			return nil, fmt.Errorf("seed op %s: %w", op, err)
		}
	}
	for _, op := range path {
		if err := w.Apply(op); err != nil {
			return nil, err
		}
	}
	return w, nil
}

func depthOf(c *Cont) int {
	d := 0
	for p := c.Parent; p != nil; p = p.Parent {
		d++
	}
	return d
}

func (s *nestedSpace) Ops(w *World) []Op {
	w.OpMaps = func(c *Cont) bool { return true }
	var ops []Op
	live := 0
	var detached []*Cont
	for _, c := range w.Conts {
		if !c.Dead {
			live++
			if c.Parent == nil && c.Serial != 0 {
				detached = append(detached, c)
			}
		}
	}
	var simple, conts []string
	for _, cl := range s.spec.Classes {
		x := cl
		for len(x) > 2 && x[:2] == "s:" {
			x = x[2:]
		}
		if isContClass(x) {
			conts = append(conts, cl)
		} else {
			simple = append(simple, cl)
		}
	}
	for _, c := range w.Conts {
		if c.Dead {
			continue
		}
		d := depthOf(c)
		isRoot := c.Serial == 0
		limit := s.lc
		if isRoot {
			limit = s.lr
		}
		classes := append([]string{}, simple...)
		if s.spec.Extra["childcls"] == 1 && !isRoot {
			classes = []string{"t", "h"}
		}
		if d < s.maxDepth-1 && live < s.maxc && c.Parent != nil || isRoot && live < s.maxc {
			classes = append(classes, conts...)
		}
		n := c.Count()
		isCont := func(v MV) bool {
			u, _ := Unwrap(v)
			_, ok := u.(*Cont)
			return ok
		}
		if c.IsMap {
			for k := 0; k < s.keys; k++ {
				present := -1
				for i, mk := range c.Keys {
					if mvEqualKey(mk, w.KeyOf(k)) {
						present = i
					}
				}
				if present < 0 && n >= limit {
					continue
				}
				for _, cl := range classes {
					ops = append(ops, Op{K: "mset", C: c.Serial, Key: k, V: cl})
					if s.detach && present >= 0 && isCont(c.Vals[present]) {
						ops = append(ops, Op{K: "mset", C: c.Serial, Key: k, V: cl, D: true})
					}
				}
				if present >= 0 {
					ops = append(ops, Op{K: "mremove", C: c.Serial, Key: k})
					if s.detach && isCont(c.Vals[present]) {
						ops = append(ops, Op{K: "mremove", C: c.Serial, Key: k, D: true})
					}
				}
				if s.detach && present < 0 {
					for _, x := range detached {
						if x != c && !isAncestor(x, c) {
							ops = append(ops, Op{K: "mset", C: c.Serial, Key: k, V: "@", X: x.Serial})
						}
					}
				}
			}
			// fields of composite (compact-encoded) maps
			for _, mk := range c.Keys {
				if sk, ok := mk.(Str); ok && len(sk.S) >= 2 && sk.S[0] == 'f' {
					var fn int
					fmt.Sscanf(sk.S, "f%d", &fn)
					ops = append(ops, Op{K: "mremove", C: c.Serial, Key: 200 + fn}, Op{K: "mset", C: c.Serial, Key: 200 + fn, V: "t"})
				}
			}
		} else {
			if n < limit {
				for _, cl := range classes {
					ops = append(ops, Op{K: "append", C: c.Serial, V: cl})
					if n > 0 {
						ops = append(ops, Op{K: "insert", C: c.Serial, I: 0, V: cl})
					}
				}
				if s.detach {
					for _, x := range detached {
						if x != c && !isAncestor(x, c) {
							ops = append(ops, Op{K: "insert", C: c.Serial, I: 0, V: "@", X: x.Serial})
						}
					}
				}
			}
			for i := 0; i < n; i++ {
				for _, cl := range classes {
					ops = append(ops, Op{K: "set", C: c.Serial, I: uint64(i), V: cl})
					if s.detach && isCont(c.Elems[i]) {
						ops = append(ops, Op{K: "set", C: c.Serial, I: uint64(i), V: cl, D: true})
					}
				}
				ops = append(ops, Op{K: "remove", C: c.Serial, I: uint64(i)})
				if s.detach && isCont(c.Elems[i]) {
					ops = append(ops, Op{K: "remove", C: c.Serial, I: uint64(i), D: true})
				}
			}
		}
		if s.spec.Extra["rej"] == 1 {
			if c.IsMap {
				for k := 0; k < s.keys; k++ {
					ops = append(ops, Op{K: "mget", C: c.Serial, Key: k}, Op{K: "mremove", C: c.Serial, Key: k + 10})
				}
			} else {
				for _, i := range oobIndexes(uint64(n)) {
					ops = append(ops, Op{K: "get", C: c.Serial, I: i}, Op{K: "set", C: c.Serial, I: i, V: "t"}, Op{K: "remove", C: c.Serial, I: i})
					if i != uint64(n) {
						ops = append(ops, Op{K: "insert", C: c.Serial, I: i, V: "h"})
					}
				}
				if s.detach {
					// rejected requests whose value is a (detached) container: the value must stay untouched and
					// usable, and the container that refused it must not remember it
					for _, x := range detached {
						if x != c && !isAncestor(x, c) {
							ops = append(ops, Op{K: "set", C: c.Serial, I: uint64(n), V: "@", X: x.Serial},
								Op{K: "insert", C: c.Serial, I: uint64(n) + 1, V: "@", X: x.Serial})
						}
					}
				}
			}
		}
		twoh := s.spec.Extra["twoh"] == 1
		if twoh && c.Parent != nil {
			// second live handle to a single-slab child: every child operation also through it
			if c.AltArr == nil && c.AltMap == nil {
				ops = append(ops, Op{K: "get2", C: c.Serial})
			} else {
				var extra []Op
				for _, o := range ops {
					if o.C == c.Serial && o.V != "@" && !o.D {
						o2 := o
						o2.Alt = true
						extra = append(extra, o2)
					}
				}
				ops = append(ops, extra...)
			}
		}
		if n > 0 && !(twoh && c.Parent != nil) {
			ops = append(ops, Op{K: "pop", C: c.Serial})
		}
		if (c.TypeID == 7 || c.TypeID == 42) && s.spec.Extra["nosettype"] != 1 {
			ops = append(ops, Op{K: "settype", C: c.Serial, N: int(c.TypeID) + 100})
		}
		if c.Parent != nil {
			ops = append(ops, Op{K: "reget", C: c.Serial})
			ops = append(ops, Op{K: "iterget", C: c.Serial})
		}
		if s.detach && c.Parent == nil && !isRoot {
			ops = append(ops, Op{K: "dispose", C: c.Serial})
		}
		// mutation through the handle held before detachment, while the container lives elsewhere
		// (or nowhere) through the handle obtained from the value handed back
		// (only when the container now lives in a different tree than its former parent: the oracle judges
		// the former parent's whole tree, which must not contain the container mutated through two handles)
		if s.detach && (c.StaleArr != nil || c.StaleMap != nil) && c.FormerParent != nil && !c.FormerParent.Dead && rootOf(c.FormerParent) != rootOf(c) {
			ops = append(ops, Op{K: "stalemut", C: c.Serial})
		}
	}
	if s.spec.Has("events") {
		ops = append(ops, Op{K: "commit", N: 1}, Op{K: "creopen"})
		if s.spec.Extra["nocdrop"] != 1 {
			ops = append(ops, Op{K: "cdrop"})
		}
	}
	return ops
}

func isAncestor(a, c *Cont) bool {
	for p := c; p != nil; p = p.Parent {
		if p == a {
			return true
		}
	}
	return false
}

// IterGet obtains a handle to an attached child through the parent's mutable iterator.
func (w *World) IterGet(c *Cont) error {
	p := c.Parent
	if p == nil {
		return fmt.Errorf("harness: iterget of non-attached c%d", c.Serial)
	}
	if err := w.EnsureHandle(p); err != nil {
		return err
	}
	var got atree.Value
	if p.IsMap {
		it, err := p.Map.Iterator(CompareValue, GetHashInput)
		if err != nil {
			return violf("mutable map iterator of c%d: %v", p.Serial, err)
		}
		for {
			k, v, err := it.Next()
			if err != nil {
				return violf("mutable map iterator of c%d: Next: %v", p.Serial, err)
			}
			if k == nil {
				break
			}
			switch h := unwrapReal(v).(type) {
			case *atree.Array:
				if h.ValueID() == c.VID {
					got = h
				}
			case *atree.OrderedMap:
				if h.ValueID() == c.VID {
					got = h
				}
			}
		}
	} else {
		it, err := p.Arr.Iterator()
		if err != nil {
			return violf("mutable array iterator of c%d: %v", p.Serial, err)
		}
		for {
			v, err := it.Next()
			if err != nil {
				return violf("mutable array iterator of c%d: Next: %v", p.Serial, err)
			}
			if v == nil {
				break
			}
			switch h := unwrapReal(v).(type) {
			case *atree.Array:
				if h.ValueID() == c.VID {
					got = h
				}
			case *atree.OrderedMap:
				if h.ValueID() == c.VID {
					got = h
				}
			}
		}
	}
	switch h := got.(type) {
	case *atree.Array:
		if c.IsMap {
			return violf("iteration of c%d yields an array for map child c%d", p.Serial, c.Serial)
		}
		c.Arr = h
	case *atree.OrderedMap:
		if !c.IsMap {
			return violf("iteration of c%d yields a map for array child c%d", p.Serial, c.Serial)
		}
		c.Map = h
	default:
		return violf("mutable iteration of c%d does not yield child c%d", p.Serial, c.Serial)
	}
	w.dropDescendantHandles(c)
	return nil
}

func rootOf(c *Cont) *Cont {
	for c.Parent != nil {
		c = c.Parent
	}
	return c
}
