package vf

import (
	"fmt"
	"math"
	"strings"

	"github.com/fxamacker/cbor/v2"
	"github.com/onflow/atree"
	tu "github.com/onflow/atree/test_utils"
)

// ---------------------------------------------------------------------------------------------
// Storable / type-info decoders handed to the storage.  DecodeStorable mirrors
// test_utils.DecodeStorable but bounds the wrapper nesting count (the test helper loops over an
// attacker-chosen 64-bit count, which is a property of the helper, not of atree).

const maxSomeNesting = 64

func DecodeStorable(dec *cbor.StreamDecoder, id atree.SlabID, inlinedExtraData []atree.ExtraData) (atree.Storable, error) {
	t, err := dec.NextType()
	if err != nil {
		return nil, err
	}
	switch t {
	case cbor.TextStringType:
		s, err := dec.DecodeString()
		if err != nil {
			return nil, err
		}
		return tu.NewStringValue(s), nil

	case cbor.ByteStringType:
		b, err := dec.DecodeBytes()
		if err != nil {
			return nil, err
		}
		return BytesValue(b), nil

	case cbor.TagType:
		tagNumber, err := dec.DecodeTagNumber()
		if err != nil {
			return nil, err
		}
		switch tagNumber {
		case atree.CBORTagInlinedArray:
			return atree.DecodeInlinedArrayStorable(dec, DecodeStorable, id, inlinedExtraData)
		case atree.CBORTagInlinedMap:
			return atree.DecodeInlinedMapStorable(dec, DecodeStorable, id, inlinedExtraData)
		case atree.CBORTagInlinedCompactMap:
			return atree.DecodeInlinedCompactMapStorable(dec, DecodeStorable, id, inlinedExtraData)
		case atree.CBORTagSlabID:
			return atree.DecodeSlabIDStorable(dec)
		case 161:
			n, err := dec.DecodeUint64()
			if err != nil {
				return nil, err
			}
			if n > math.MaxUint8 {
				return nil, fmt.Errorf("invalid data, got %d, expected max %d", n, math.MaxUint8)
			}
			return tu.Uint8Value(n), nil
		case 162:
			n, err := dec.DecodeUint64()
			if err != nil {
				return nil, err
			}
			if n > math.MaxUint16 {
				return nil, fmt.Errorf("invalid data, got %d, expected max %d", n, math.MaxUint16)
			}
			return tu.Uint16Value(n), nil
		case 163:
			n, err := dec.DecodeUint64()
			if err != nil {
				return nil, err
			}
			if n > math.MaxUint32 {
				return nil, fmt.Errorf("invalid data, got %d, expected max %d", n, math.MaxUint32)
			}
			return tu.Uint32Value(n), nil
		case 164:
			n, err := dec.DecodeUint64()
			if err != nil {
				return nil, err
			}
			return tu.Uint64Value(n), nil
		case tu.CBORTagSomeValue:
			storable, err := DecodeStorable(dec, id, inlinedExtraData)
			if err != nil {
				return nil, err
			}
			return tu.SomeStorable{Storable: storable}, nil
		case 167:
			count, err := dec.DecodeArrayHead()
			if err != nil {
				return nil, err
			}
			if count != 2 {
				return nil, fmt.Errorf("invalid array count for some value with nested levels: %d", count)
			}
			nestedLevels, err := dec.DecodeUint64()
			if err != nil {
				return nil, err
			}
			if nestedLevels <= 1 || nestedLevels > maxSomeNesting {
				return nil, fmt.Errorf("invalid nested levels %d", nestedLevels)
			}
			inner, err := DecodeStorable(dec, id, inlinedExtraData)
			if err != nil {
				return nil, err
			}
			storable := tu.SomeStorable{Storable: inner}
			for i := uint64(1); i < nestedLevels; i++ {
				storable = tu.SomeStorable{Storable: storable}
			}
			return storable, nil
		default:
			return nil, fmt.Errorf("invalid tag number %d", tagNumber)
		}
	default:
		return nil, fmt.Errorf("invalid cbor type %s for storable", t)
	}
}

// CompTI is the harness's composite type info.  test_utils.CompositeTypeInfo encodes with tag
// number 246, which atree reserves for its own type-info references (registers holding one next to
// other inlined type infos then fail to decode); applications must use non-reserved tags.
type CompTI struct{ V uint64 }

const compTITag = 200

func (i CompTI) Copy() atree.TypeInfo { return i }
func (i CompTI) IsComposite() bool    { return true }
func (i CompTI) Encode(enc *cbor.StreamEncoder) error {
	if err := enc.EncodeTagHead(compTITag); err != nil {
		return err
	}
	return enc.EncodeUint64(i.V)
}

func DecodeTypeInfo(dec *cbor.StreamDecoder) (atree.TypeInfo, error) {
	t, err := dec.NextType()
	if err != nil {
		return nil, err
	}
	switch t {
	case cbor.UintType:
		v, err := dec.DecodeUint64()
		if err != nil {
			return nil, err
		}
		return tu.NewSimpleTypeInfo(v), nil
	case cbor.TagType:
		n, err := dec.DecodeTagNumber()
		if err != nil {
			return nil, err
		}
		if n != compTITag {
			return nil, fmt.Errorf("failed to decode type info: tag %d", n)
		}
		v, err := dec.DecodeUint64()
		if err != nil {
			return nil, err
		}
		return CompTI{v}, nil
	}
	return nil, fmt.Errorf("failed to decode type info")
}

// CompareTypeInfo is the TypeInfoComparator handed to the in-repo verifiers.
func CompareTypeInfo(a, b atree.TypeInfo) bool {
	switch a := a.(type) {
	case tu.SimpleTypeInfo:
		return a.Equal(b)
	case CompTI:
		o, ok := b.(CompTI)
		return ok && o.V == a.V
	}
	return false
}

// ---------------------------------------------------------------------------------------------
// Model values.

// MV is a model value: Scalar, Str, Some or *Cont.
type MV interface{ mv() }

type Scalar struct{ N uint64 } // testutils.Uint64Value(N)
type U8 struct{ N uint8 }      // testutils.Uint8Value(N)

func (U8) mv() {}
type Str struct{ S string }    // testutils.StringValue
type Some struct{ In MV }      // testutils.SomeValue
type Bytes struct{ B string }  // harness byte-string key (arbitrary bytes; CBOR byte string)

func (Bytes) mv() {}

func (Scalar) mv() {}
func (Str) mv()    {}
func (Some) mv()   {}
func (*Cont) mv()  {}

// Cont is the model of one container (array or map) together with the live handle to the real one.
type Cont struct {
	Serial int
	IsMap  bool
	Elems  []MV // array elements
	Keys   []MV // map keys in insertion order
	Vals   []MV // map values, parallel to Keys
	TypeID uint64
	Comp   bool // composite type info

	Arr *atree.Array
	Map *atree.OrderedMap
	VID atree.ValueID
	SID atree.SlabID // slab ID at creation (== root ID for a never-nested container)

	// Stale handle: the handle the harness held when the container was detached from FormerParent
	// (C11: handles taken before detachment and used after).
	StaleArr     *atree.Array
	StaleMap     *atree.OrderedMap
	FormerParent *Cont

	// Alt: a second live handle to the same attached, single-slab container (two-handle universe of C10).
	AltArr *atree.Array
	AltMap *atree.OrderedMap

	// Table: this map was created with the caller-supplied digest table (only maps created as roots;
	// a map reached through a parent is always opened with the default digester by the library).
	Table bool

	Parent *Cont // nil: root or detached
	Dead   bool  // destroyed (popped out of its parent / disposed)
	Wrap   int   // number of Some wrappers around it inside its parent
}

func (c *Cont) Count() int {
	if c.IsMap {
		return len(c.Keys)
	}
	return len(c.Elems)
}

// Unwrap removes Some wrappers.
func Unwrap(v MV) (MV, int) {
	n := 0
	for {
		s, ok := v.(Some)
		if !ok {
			return v, n
		}
		v = s.In
		n++
	}
}

// MVString renders a model value with full content (for messages and replays).
func MVString(v MV) string {
	switch v := v.(type) {
	case nil:
		return "nil"
	case Scalar:
		return fmt.Sprintf("%d", v.N)
	case U8:
		return fmt.Sprintf("b%d", v.N)
	case Str:
		if len(v.S) > 12 {
			return fmt.Sprintf("%q…(%d)", v.S[:8], len(v.S))
		}
		return fmt.Sprintf("%q", v.S)
	case Bytes:
		return fmt.Sprintf("bytes(%x)", v.B)
	case Some:
		return "some(" + MVString(v.In) + ")"
	case *Cont:
		var sb strings.Builder
		if v.IsMap {
			sb.WriteString("{")
			for i := range v.Keys {
				if i > 0 {
					sb.WriteString(" ")
				}
				sb.WriteString(MVString(v.Keys[i]) + ":" + MVString(v.Vals[i]))
			}
			sb.WriteString("}")
		} else {
			sb.WriteString("[")
			for i, e := range v.Elems {
				if i > 0 {
					sb.WriteString(" ")
				}
				sb.WriteString(MVString(e))
			}
			sb.WriteString("]")
		}
		return sb.String()
	}
	return "?"
}

// ScalarSize is the encoded size of a Uint64Value.
func ScalarSize(n uint64) uint32 { return 2 + atree.GetUintCBORSize(n) }

// StrOfSize returns a string whose StringValue encoding is exactly size bytes when possible
// (sizes 25 and 258..259 have no exact representation; the next smaller feasible size is used),
// made unique by embedding tag at its start.
func StrOfSize(size uint32, tag string) string {
	var n int
	switch {
	case size <= 24:
		n = int(size) - 1
	case size == 25:
		n = 23
	case size <= 257:
		n = int(size) - 2
	case size <= 259:
		n = 255
	default:
		n = int(size) - 3
	}
	if n < 0 {
		n = 0
	}
	if len(tag) >= n {
		return tag[:n]
	}
	return tag + strings.Repeat("~", n-len(tag))
}

func StrSize(s string) uint32 {
	return atree.GetUintCBORSize(uint64(len(s))) + uint32(len(s))
}

// ToAtree converts a non-container model value to an atree value.
func ToAtree(v MV) atree.Value {
	switch v := v.(type) {
	case Scalar:
		return tu.Uint64Value(v.N)
	case U8:
		return tu.Uint8Value(v.N)
	case Str:
		return tu.NewStringValue(v.S)
	case Bytes:
		return BytesValue(v.B)
	case Some:
		return tu.NewSomeValue(ToAtree(v.In))
	case *Cont:
		if v.IsMap {
			return v.Map
		}
		return v.Arr
	}
	panic(fmt.Sprintf("ToAtree: unsupported %T", v))
}

// ---------------------------------------------------------------------------------------------
// Value classes (the alphabet).  A class is a size/kind recipe; Make instantiates it with a serial
// so that contents are distinguishable while the explorer's state key only records the class.

type Class string

// Classes understood by MakeScalarOrString:
//   t    3-byte scalar            u4/u5/u7/u11  scalars of the other CBOR widths
//   mid  string of about T/4      half  string of exactly minThreshold-ish element share
//   limA / limA+  string exactly at / one over the array inline limit
//   limM / limM+  string exactly at / one over the map value limit for a 3-byte key
//   limK / limK+  string exactly at / one over the map key limit
//   huge string larger than 1.5 T
//   s:<class>    Some wrapper around class, ss:<class> double wrapper

func MakeSimple(c Class, serial int) MV {
	_, _, _, maxArr, maxMapElem, maxKey := atree.VerifThresholds()
	target, _, _, _, _, _ := atree.VerifThresholds()
	tag := fmt.Sprintf("%s#%d.", string(c), serial)
	switch {
	case strings.HasPrefix(string(c), "ss:"):
		return Some{Some{MakeSimple(c[3:], serial)}}
	case strings.HasPrefix(string(c), "s:"):
		return Some{MakeSimple(c[2:], serial)}
	}
	if len(c) > 1 && c[0] == 's' && c[1] >= '0' && c[1] <= '9' {
		var n uint32
		fmt.Sscanf(string(c[1:]), "%d", &n)
		return Str{StrOfSize(n, tag)}
	}
	if len(c) > 1 && c[0] == 'b' && c[1] >= '0' && c[1] <= '9' {
		// scalar with exactly this value (CBOR width boundaries: 23/24, 255/256, 65535/65536, 2^32-1/2^32)
		var n uint64
		fmt.Sscanf(string(c[1:]), "%d", &n)
		return Scalar{n}
	}
	switch c {
	case "giant": // larger than 64 KiB: far beyond any slab size, stored in a slab of its own
		return Str{StrOfSize(70000, tag)}
	case "t":
		return Scalar{uint64(serial % 24)}
	case "u4":
		return Scalar{24 + uint64(serial%200)}
	case "u5":
		return Scalar{256 + uint64(serial%60000)}
	case "u7":
		return Scalar{65536 + uint64(serial)}
	case "u11":
		return Scalar{1<<32 + uint64(serial)}
	case "h": // half of what an inlined child array can hold at the array inline limit
		return Str{StrOfSize((maxArr-17)/2, tag)}
	case "mid":
		return Str{StrOfSize(target/4, tag)}
	case "third":
		return Str{StrOfSize(target/3, tag)}
	case "limA":
		return Str{StrOfSize(maxArr, tag)}
	case "limA-":
		return Str{StrOfSize(maxArr-1, tag)}
	case "limA+":
		return Str{StrOfSize(maxArr+1, tag)}
	case "limSA": // Some(x) exactly at the array limit (wrapper 2 bytes)
		return Some{Str{StrOfSize(maxArr-2, tag)}}
	case "limSA+":
		return Some{Str{StrOfSize(maxArr-1, tag)}}
	case "limM": // map value limit for a 3-byte key
		return Str{StrOfSize(maxMapElem-3-1, tag)} // singleElementPrefixSize == 1
	case "limM+":
		return Str{StrOfSize(maxMapElem-3-1+1, tag)}
	case "limK":
		return Str{StrOfSize(maxKey, tag)}
	case "limK+":
		return Str{StrOfSize(maxKey+1, tag)}
	case "huge":
		return Str{StrOfSize(target*3/2+40, tag)}
	}
	panic("unknown class " + string(c))
}

// ClassOf abstracts a model value to what the library can observe of it structurally:
// its kind and encoded size (contents of strings/scalars are never branched on for array elements).
func ClassOf(v MV) string {
	switch v := v.(type) {
	case Scalar:
		return fmt.Sprintf("n%d", ScalarSize(v.N))
	case U8:
		return fmt.Sprintf("b%d", ScalarSize(uint64(v.N)))
	case Str:
		return fmt.Sprintf("s%d", StrSize(v.S))
	case Bytes:
		return fmt.Sprintf("y%d", StrSize(v.B))
	case Some:
		return "S(" + ClassOf(v.In) + ")"
	case *Cont:
		return fmt.Sprintf("c%d", v.Serial)
	}
	return "?"
}

// tiText renders a type info (the test type infos render through %v).
func tiText(t atree.TypeInfo) string {
	if t == nil {
		return "nil"
	}
	return fmt.Sprintf("%T%v", t, t)
}

func thresholds() (target, minT, maxT, maxArr, maxMapElem, maxKey uint32) {
	return atree.VerifThresholds()
}

// BytesValue is a harness value/storable holding arbitrary bytes (CBOR byte string).  It exists so
// that keys can be built whose hash input collides on the FIRST digest level under the default
// digester (see KeyOfDefault 300..399).
type BytesValue string

var _ atree.Value = BytesValue("")
var _ atree.Storable = BytesValue("")

func (v BytesValue) ByteSize() uint32 {
	return atree.GetUintCBORSize(uint64(len(v))) + uint32(len(v))
}
func (v BytesValue) Encode(enc *atree.Encoder) error { return enc.CBOR.EncodeBytes([]byte(v)) }
func (v BytesValue) StoredValue(atree.SlabStorage) (atree.Value, error) { return v, nil }
func (v BytesValue) ChildStorables() []atree.Storable                    { return nil }
func (v BytesValue) CanCopyNonRefSimple() bool                           { return true }
func (v BytesValue) CopyNonRefSimple() (atree.Storable, error)           { return v, nil }
func (v BytesValue) Storable(storage atree.SlabStorage, address atree.Address, maxInlineSize uint32) (atree.Storable, error) {
	if v.ByteSize() > maxInlineSize {
		return atree.NewStorableSlab(storage, address, v, v.ByteSize())
	}
	return v, nil
}

// HashInput: the CBOR encoding (2-byte head for lengths 24..255, then the bytes).
func (v BytesValue) HashInput(scratch []byte) ([]byte, error) {
	n := len(v)
	var head []byte
	switch {
	case n <= 23:
		head = []byte{0x40 | byte(n)}
	case n <= 255:
		head = []byte{0x58, byte(n)}
	default:
		head = []byte{0x59, byte(n >> 8), byte(n)}
	}
	return append(head, v...), nil
}

// CompareValue / GetHashInput: the comparator and hash-input provider the harness hands to atree
// (test_utils' plus the harness byte-string value).
func CompareValue(storage atree.SlabStorage, value atree.Value, storable atree.Storable) (bool, error) {
	if bv, ok := value.(BytesValue); ok {
		if other, ok := storable.(BytesValue); ok {
			return other == bv, nil
		}
		ov, err := storable.StoredValue(storage)
		if err != nil {
			return false, err
		}
		other, ok := ov.(BytesValue)
		return ok && other == bv, nil
	}
	if _, ok := storable.(BytesValue); ok {
		return false, nil
	}
	return tu.CompareValue(storage, value, storable)
}

func GetHashInput(value atree.Value, buffer []byte) ([]byte, error) {
	if bv, ok := value.(BytesValue); ok {
		return bv.HashInput(buffer)
	}
	return tu.GetHashInput(value, buffer)
}
