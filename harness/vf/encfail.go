package vf

import (
	"encoding/json"
	"errors"
	"fmt"

	"github.com/onflow/atree"
)

// encfail: values whose storable cannot be encoded (a caller-supplied component failing at commit time), stored
// inline and — the case the commit paths treat separately — as a LARGE value in a slab of its own.  A commit of a
// write set that contains such a slab must report the failure: if it reports success, every register it wrote must
// be one a brand-new storage can reconstruct the containers from (C03), and the storage must not claim the change
// was saved (C15).  After the caller removes the value again, the next commit must succeed and recover normally.

type unencodable struct{ size uint32 }

func (u unencodable) Storable(st atree.SlabStorage, addr atree.Address, maxInline uint32) (atree.Storable, error) {
	if u.size > maxInline {
		return atree.NewStorableSlab(st, addr, u, u.size)
	}
	return u, nil
}
func (u unencodable) Encode(*atree.Encoder) error { return fmt.Errorf("injected encode failure") }
func (u unencodable) ByteSize() uint32           { return u.size }
func (u unencodable) StoredValue(atree.SlabStorage) (atree.Value, error) { return u, nil }
func (u unencodable) ChildStorables() []atree.Storable               { return nil }
func (u unencodable) CanCopyNonRefSimple() bool                      { return false }
func (u unencodable) CopyNonRefSimple() (atree.Storable, error)      { return nil, fmt.Errorf("no") }

type encFailArg struct {
	T       uint32 `json:"t"`
	Map     bool   `json:"map"`
	Large   bool   `json:"large"`
	Relaxed bool   `json:"relaxed"`
	Workers int    `json:"workers"`
	Pre     int    `json:"pre"` // elements committed before the unencodable one is added
}

func encFailTask(raw json.RawMessage) TaskResult {
	var a encFailArg
	var res TaskResult
	if err := json.Unmarshal(raw, &a); err != nil {
		res.Herr = err.Error()
		return res
	}
	res.Evals = 1
	what := fmt.Sprintf("unencodable value (large=%v) in a %s with %d committed elements, relaxed=%v workers=%d, slab size %d",
		a.Large, map[bool]string{false: "array", true: "map"}[a.Map], a.Pre, a.Relaxed, a.Workers, a.T)
	res.Distinct = append(res.Distinct, what)
	res.Samples = append(res.Samples, what)
	fail := func(f string, x ...any) TaskResult {
		res.Viols = append(res.Viols, what+": "+fmt.Sprintf(f, x...))
		return res
	}
	w := NewWorld(a.T)
	w.KeyOf = func(n int) MV { return Scalar{uint64(n)} }
	first := Op{K: "newarr"}
	if a.Map {
		first = Op{K: "newmap"}
	}
	ops := []Op{first, {K: "newarr", N: 2}, {K: "append", C: 1, V: "t"}}
	for i := 0; i < a.Pre; i++ {
		if a.Map {
			ops = append(ops, Op{K: "mset", C: 0, Key: i, V: "t"})
		} else {
			ops = append(ops, Op{K: "append", C: 0, V: "t"})
		}
	}
	for _, o := range ops {
		if err := w.Apply(o); err != nil {
			res.Herr = err.Error()
			return res
		}
	}
	if err := w.Commit(1, false); err != nil {
		return fail("initial commit: %v", err)
	}
	before := w.Ledger.Snapshot()
	_, _, _, maxArr, _, _ := atree.VerifThresholds()
	size := uint32(20)
	if a.Large {
		size = maxArr + 40
	}
	c := w.Conts[0]
	var err error
	if a.Map {
		_, err = c.Map.Set(CompareValue, GetHashInput, ToAtree(Scalar{900}), unencodable{size})
	} else {
		err = c.Arr.Append(unencodable{size})
	}
	if err != nil {
		return fail("inserting the value failed: %v", err)
	}
	// another owner's container is dirty too, so that the commit has several slabs to write
	if err := w.Apply(Op{K: "append", C: 1, V: "t"}); err != nil {
		res.Herr = err.Error()
		return res
	}
	cerr := w.commitRaw(a.Workers, a.Relaxed)
	if cerr == nil {
		// reported success: then the ledger must be a state a fresh storage can be recovered from, and must hold
		// the value (it does not: the value cannot be encoded) — judge what was written
		for _, id := range w.Ledger.SortedIDs() {
			if _, derr := atree.DecodeSlab(id, w.Ledger.Regs[id], decMode, DecodeStorable, DecodeTypeInfo); derr != nil {
				return fail("the commit reported success, but register %s (%x) cannot be decoded: %v", id, w.Ledger.Regs[id], derr)
			}
		}
		return fail("the commit reported success although a value in its write set cannot be encoded")
	}
	var fe *atree.FatalError
	var ee *atree.ExternalError
	if !errors.As(cerr, &fe) && !errors.As(cerr, &ee) {
		return fail("encode failure reported without a category: %T %v", cerr, cerr)
	}
	if !a.Relaxed {
		// the deterministic commit encodes everything before its first ledger call: nothing may have been written
		if ok, why := EqualRegs(before, w.Ledger); !ok {
			return fail("the deterministic commit failed on encoding but the ledger changed: %s", why)
		}
	}
	if !w.St.HasUnsavedChanges(w.Addr) {
		return fail("after the failed commit the storage reports no unsaved changes for the owner of the unencodable slab")
	}
	// the caller takes the value out again and disposes of it
	var old atree.Storable
	if a.Map {
		_, old, err = c.Map.Remove(CompareValue, GetHashInput, ToAtree(Scalar{900}))
	} else {
		old, err = c.Arr.Remove(uint64(a.Pre))
	}
	if err != nil {
		return fail("removing the value again failed: %v", err)
	}
	if sid, ok := old.(atree.SlabIDStorable); ok {
		if err := w.St.Remove(atree.SlabID(sid)); err != nil {
			return fail("disposing of the value's slab failed: %v", err)
		}
	}
	if err := RunOracles(w, Spec{Oracles: []string{"sem", "struct", "reach", "reopen"}}); err != nil {
		return fail("after removing the value: %v", err)
	}
	return res
}

func init() { RegisterTask("encfail", encFailTask) }

func encFailArgs() []any {
	var args []any
	for _, T := range []uint32{256, 1024} {
		for _, m := range []bool{false, true} {
			for _, large := range []bool{false, true} {
				for _, relaxed := range []bool{false, true} {
					for _, wk := range []int{1, 2, 3} {
						for _, pre := range []int{0, 2, 12} {
							args = append(args, encFailArg{T: T, Map: m, Large: large, Relaxed: relaxed, Workers: wk, Pre: pre})
						}
					}
				}
			}
		}
	}
	return args
}
