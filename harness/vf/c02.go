package vf

func init() {
	RegisterCheck(&CheckDef{ID: "C02", Level: "model_checking", Run: runC02})
}

func runC02(r *Run) {
	r.Rule = "explicit-state BFS on the real atree.OrderedMap; every Set/Get/Has/Remove/PopIterate/SetType on every key of the universe (present or absent) from every reachable state, compared with an insertion-ordered dictionary model; states deduplicated by canonical key (model + slab structure, digests named by the universe keys they belong to); distinct_nontrivial = distinct canonical states"
	r.Assumptions = []string{
		"keys come from a finite universe (their hash order under the map's seed is part of the state key)",
		"value contents are abstracted to (kind, encoded size) in the state key; contents are compared on every transition",
	}
	or := []string{"sem", "reopen"}
	var specs []Spec
	if !r.Thorough() {
		specs = append(specs,
			Spec{Name: "map-small-T256-K4", Kind: "map-small", T: 256, Keys: 4, Classes: []string{"t", "limM", "limM+"}, Oracles: or},
			Spec{Name: "map-keys-T256-K2+lim", Kind: "map-small", T: 256, Keys: 2, Extra: map[string]int{"kLim": 1}, Classes: []string{"t", "s10", "A", "s:M:t"}, Oracles: or},
		)
	} else {
		specs = append(specs,
			Spec{Name: "map-small-T256-K6", Kind: "map-small", T: 256, Keys: 6, Classes: []string{"t", "mid", "limM", "limM+"}, Oracles: or},
			Spec{Name: "map-keys-T256-K3+lim", Kind: "map-small", T: 256, Keys: 3, Extra: map[string]int{"kLim": 1}, Classes: []string{"t", "s10", "A", "M:t", "s:M:t"}, Oracles: or},
		)
	}
	nd := 4
	if r.Thorough() {
		nd = 5
	}
	specs = append(specs,
		Spec{Name: "map-small-T1024-K4", Kind: "map-small", T: 1024, Keys: 4, Classes: []string{"t", "limM", "limM+", "M:t"}, Oracles: or},
		Spec{Name: "map-small-T32768-K3", Kind: "map-small", T: 32768, Keys: 3, Classes: []string{"t", "limM", "limM+"}, Oracles: or},
		Spec{Name: "map-realcoll-T256", Kind: "map-small", T: 256, Keys: 1, Extra: map[string]int{"realcoll": 3}, Classes: []string{"t", "s60"}, Oracles: append([]string{"struct"}, or...)},
		Spec{Name: "map-giant-T256", Kind: "map-small", T: 256, Keys: 1, Extra: map[string]int{"kLim": 1}, Classes: []string{"t", "giant"}, Oracles: or},
		Spec{Name: "map-nodedup-T256", Kind: "map-small", T: 256, Keys: 3, Classes: []string{"limM", "A:t"}, Oracles: or, Depth: nd, Extra: map[string]int{"nodedup": 1}},
	)
	// histories with commit / reopen events inside (the map is operated on after being decoded from its
	// registers; differential against the event-free history), and maps that are themselves values of a map
	evd := 6
	if r.Thorough() {
		evd = 8
	}
	specs = append(specs,
		Spec{Name: "map-events-T256-K4", Kind: "map-small", T: 256, Keys: 4, Classes: []string{"t", "limM"}, Oracles: []string{"twin", "ev:commit1", "ev:creopen"}, Depth: evd},
		Spec{Name: "map-of-maps-T256", Kind: "nested", T: 256, Keys: 2, Classes: []string{"t", "h", "M"}, Oracles: []string{"sem", "reopen", "events"},
			Extra: map[string]int{"rootmap": 1, "lr": 2, "lc": 3, "maxc": 2, "depth": 2}},
	)
	r.ExploreSpecs(specs)
	// multi-level trees with caller-placed digests: new smallest key, keys between any two
	// adjacent slabs, removal of a slab's first key, above the last key
	tor := []string{"sem", "reopen", "pop"}
	var ts []Spec
	if !r.Thorough() {
		for _, sc := range []string{"map-grow-lim", "map-grow-desc"} {
			ts = append(ts, TrajSpecs(r.ID, sc, 90, 1, 91, 3, 1, 256, []string{"t", "limM"}, tor)...)
			ts = append(ts, TrajSpecs(r.ID, sc, 90, 2, 14, 4, 2, 256, []string{"t", "limM"}, tor)...)
		}
		for _, sc := range []string{"map-drain-front", "map-drain-back", "map-shrink-overwrite"} {
			ts = append(ts, TrajSpecs(r.ID, sc, 160, 81, 161, 3, 1, 256, []string{"t", "limM"}, tor)...)
		}
	} else {
		for _, T := range []uint32{256, 512} {
			for _, sc := range []string{"map-grow-lim", "map-grow-desc"} {
				ts = append(ts, TrajSpecs(r.ID, sc, 90, 1, 91, 1, 1, T, []string{"t", "mid", "limM", "limM+"}, tor)...)
				ts = append(ts, TrajSpecs(r.ID, sc, 90, 2, 24, 2, 2, T, []string{"t", "limM"}, tor)...)
			}
			for _, sc := range []string{"map-drain-front", "map-drain-back", "map-shrink-overwrite"} {
				ts = append(ts, TrajSpecs(r.ID, sc, 160, 81, 161, 1, 1, T, []string{"t", "mid", "limM", "limM+"}, tor)...)
				ts = append(ts, TrajSpecs(r.ID, sc, 160, 140, 161, 3, 2, T, []string{"t", "limM"}, tor)...)
			}
		}
	}
	// slab sizes whose index-slab fan-out is even (see C01)
	for _, T := range []uint32{260, 300} {
		ts = append(ts, TrajSpecs(r.ID, "map-grow-lim", 110, 40, 111, 7, 1, T, []string{"t", "limM"}, tor)...)
	}
	r.ExploreSpecs(ts)
	// magnitudes: thousands of entries, four-level trees, collapse back to a lone root
	r.RunTaskGroup("maps of 5 000 small / 2 500 limit-sized entries: build, probe, reopen, drain to empty", "bigtree", bigTreeArgs("map-tiny", "map-lim"))
	// one collision group grown to 258 keys (shared first digest / first two digests / all digests) under the default
	// collision limit: dictionary semantics throughout, incl. the one refusal the limit prescribes
	// a copy is a container of its own: after a copy, every operation on either side leaves the other side a correct
	// dictionary (copies must not share any mutable storage with their source)
	{
		var cargs []any
		for sh := 0; sh < 16; sh++ {
			cargs = append(cargs, c17Arg{T: 256, Mode: "copy", Shard: sh, Shards: 16})
		}
		r.RunTaskGroup("copied single-slab containers: either side mutated, the other side judged", "c17", cargs)
	}
	r.RunTaskGroup("one collision group grown to 258 keys at the default limit", "colldeep", collDeepArgs())
}
