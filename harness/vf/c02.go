package vf

func init() {
	RegisterCheck(&CheckDef{ID: "C02", Level: "model_checking", Run: runC02})
}

func runC02(r *Run) {
	r.Rule = "explicit-state BFS on the real atree.OrderedMap; every Set/Get/Has/Remove/PopIterate/SetType on every key of the universe (present or absent) from every reachable state, compared with an insertion-ordered dictionary model; states deduplicated by canonical key (model + slab structure, digests named by the universe keys they belong to); distinct_nontrivial = distinct canonical states"
	r.Assumptions = []string{
		"keys come from a finite universe (their hash order under the map's seed is part of the state key)",
		"value contents are abstracted to (kind, encoded size) in the state key; contents are compared on every transition",
	}
	or := []string{"sem", "reopen"}
	var specs []Spec
	if !r.Thorough() {
		specs = append(specs,
			Spec{Name: "map-small-T256-K4", Kind: "map-small", T: 256, Keys: 4, Classes: []string{"t", "limM", "limM+"}, Oracles: or},
			Spec{Name: "map-keys-T256-K2+lim", Kind: "map-small", T: 256, Keys: 2, Extra: map[string]int{"kLim": 1}, Classes: []string{"t", "s10", "A", "s:M:t"}, Oracles: or},
		)
	} else {
		specs = append(specs,
			Spec{Name: "map-small-T256-K6", Kind: "map-small", T: 256, Keys: 6, Classes: []string{"t", "mid", "limM", "limM+"}, Oracles: or},
			Spec{Name: "map-keys-T256-K3+lim", Kind: "map-small", T: 256, Keys: 3, Extra: map[string]int{"kLim": 1}, Classes: []string{"t", "s10", "A", "M:t", "s:M:t"}, Oracles: or},
		)
	}
	r.ExploreSpecs(specs)
}
