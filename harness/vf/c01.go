package vf

func init() {
	RegisterCheck(&CheckDef{ID: "C01", Level: "model_checking", Run: runC01})
}

func runC01(r *Run) {
	r.Rule = "explicit-state BFS on the real atree.Array over a PersistentSlabStorage; a state is the history reaching it, deduplicated by a canonical key (model classes + slab structure + hidden handle tables); every transition calls the real API and compares every returned value/error/count/type with a []value model; distinct_nontrivial = distinct canonical states"
	r.Assumptions = []string{
		"value contents are abstracted to (kind, encoded size) in the state key; contents are still compared on every transition",
		"closure results hold for all histories staying inside the bounded universe; trajectory neighbourhoods are depth-bounded",
	}
	var specs []Spec
	or := []string{"sem", "oob", "reopen"}
	if !r.Thorough() {
		specs = append(specs,
			Spec{Name: "arr-small-T256-L5", Kind: "arr-small", T: 256, L: 5, Classes: []string{"t", "mid", "limA", "limA+"}, Oracles: or},
			Spec{Name: "arr-nested-T256-L4", Kind: "arr-small", T: 256, L: 4, Classes: []string{"t", "limA", "A", "M:t", "s:A:t"}, Oracles: or},
			Spec{Name: "arr-nested-big-T256-L3", Kind: "arr-small", T: 256, L: 3, Classes: []string{"t", "s:A:limA-,limA-", "A:limA-,limA-", "s:M:limM,limM", "ss:A"}, Oracles: or},
		)
	} else {
		specs = append(specs,
			Spec{Name: "arr-small-T256-L6", Kind: "arr-small", T: 256, L: 6, Classes: []string{"t", "u5", "mid", "limA", "limA+", "s:limA"}, Oracles: or},
		)
	}
	// other slab sizes (size classes are relative to the slab size) and all histories up to a depth
	// without state deduplication (hidden state the canonical key cannot see)
	nd, ndL := 4, 3
	if r.Thorough() {
		nd, ndL = 5, 4
	}
	specs = append(specs,
		Spec{Name: "arr-small-T1024-L4", Kind: "arr-small", T: 1024, L: 4, Classes: []string{"t", "mid", "limA", "limA+", "A:t"}, Oracles: or},
		Spec{Name: "arr-small-T32768-L3", Kind: "arr-small", T: 32768, L: 3, Classes: []string{"t", "limA", "limA+"}, Oracles: or},
		Spec{Name: "arr-giant-T256-L2", Kind: "arr-small", T: 256, L: 2, Classes: []string{"t", "giant", "s:giant"}, Oracles: or},
		Spec{Name: "arr-nodedup-T256", Kind: "arr-small", T: 256, L: ndL, Classes: []string{"limA", "A:t", "s:A:limA-,limA-"}, Oracles: or, Depth: nd, Extra: map[string]int{"nodedup": 1}},
	)
	// arrays that are themselves elements of an array: every array operation incl. type changes through the
	// child's handle, with commit / reopen / cache-drop events inside the history (an array decoded from its
	// parent's register must still behave as a sequence with its own type)
	specs = append(specs, Spec{Name: "arr-of-arrays-T256", Kind: "nested", T: 256, Keys: 2, Classes: []string{"t", "h", "A"}, Oracles: []string{"sem", "reopen", "events"},
		Extra: map[string]int{"rootmap": 0, "lr": 2, "lc": 3, "maxc": 2, "depth": 2}},
		// (lc = 3: a nested array grows past the inline limit and lives in its own slab, and shrinks back)
		Spec{Name: "arr-of-arrays-2kids-T256", Kind: "nested", T: 256, Keys: 2, Classes: []string{"t", "A"}, Oracles: []string{"sem", "reopen", "events"},
			Extra: map[string]int{"rootmap": 0, "lr": 2, "lc": 2, "maxc": 3, "depth": 2}})
	evd := 6
	if r.Thorough() {
		evd = 8
	}
	specs = append(specs, Spec{Name: "arr-events-T256-L5", Kind: "arr-small", T: 256, L: 5, Classes: []string{"t", "limA", "limA+"}, Oracles: []string{"twin", "ev:commit1", "ev:creopen"}, Depth: evd})
	r.ExploreSpecs(specs)
	// trajectories: multi-level trees, depth-bounded neighbourhoods of every trajectory state
	tor := []string{"sem", "oob", "reopen"}
	cls := []string{"t", "limA"}
	var ts []Spec
	if !r.Thorough() {
		for _, sc := range []string{"arr-append-lim", "arr-front-mid", "arr-mixed"} {
			ts = append(ts, TrajSpecs(r.ID, sc, 70, 1, 71, 3, 1, 256, cls, tor)...)
			ts = append(ts, TrajSpecs(r.ID, sc, 70, 2, 14, 4, 2, 256, cls, tor)...)
		}
		for _, sc := range []string{"arr-drain-front", "arr-drain-back", "arr-drain-mid", "arr-shrink-overwrite"} {
			ts = append(ts, TrajSpecs(r.ID, sc, 120, 61, 121, 3, 1, 256, cls, tor)...)
		}
	} else {
		for _, T := range []uint32{256, 512} {
			for _, sc := range []string{"arr-append-lim", "arr-front-mid", "arr-mixed"} {
				ts = append(ts, TrajSpecs(r.ID, sc, 100, 1, 101, 1, 1, T, []string{"t", "mid", "limA", "limA+"}, tor)...)
				ts = append(ts, TrajSpecs(r.ID, sc, 100, 2, 24, 2, 2, T, cls, tor)...)
			}
			for _, sc := range []string{"arr-drain-front", "arr-drain-back", "arr-drain-mid", "arr-shrink-overwrite"} {
				ts = append(ts, TrajSpecs(r.ID, sc, 160, 81, 161, 1, 1, T, []string{"t", "mid", "limA", "limA+"}, tor)...)
				ts = append(ts, TrajSpecs(r.ID, sc, 160, 140, 161, 3, 2, T, cls, tor)...)
			}
		}
	}
	// slab sizes whose index-slab fan-out is EVEN (256, 512, 1024 and every power of two give an odd one): the
	// index-slab split point, three levels
	for _, T := range []uint32{260, 300} {
		ts = append(ts, TrajSpecs(r.ID, "arr-append-lim", 110, 50, 111, 6, 1, T, cls, tor)...)
	}
	r.ExploreSpecs(ts)
	// magnitudes: 70 000 elements (counts beyond 65 535), four-level trees, collapse back to a lone root
	r.RunTaskGroup("arrays of 70 000 tiny / 4 000 limit-sized elements: build, probe, reopen, drain to empty", "bigtree", bigTreeArgs("arr-tiny", "arr-lim"))
	// many inlined children in one slab (possible at the larger legal slab sizes only): build, commit, reopen
	// a copy is a container of its own: after a copy, every operation on either side leaves the other side a correct
	// sequence (copies must not share any mutable storage with their source)
	{
		var cargs []any
		for sh := 0; sh < 16; sh++ {
			cargs = append(cargs, c17Arg{T: 256, Mode: "copy", Shard: sh, Shards: 16})
		}
		r.RunTaskGroup("copied single-slab containers: either side mutated, the other side judged", "c17", cargs)
	}
	r.RunTaskGroup("containers with 200-300 inlined children in one slab (slab sizes 8192, 32768)", "manykids", manyKidsArgs("C01"))
}
