package vf

func init() {
	RegisterCheck(&CheckDef{ID: "C01", Level: "model_checking", Run: runC01})
}

func runC01(r *Run) {
	r.Rule = "explicit-state BFS on the real atree.Array over a PersistentSlabStorage; a state is the history reaching it, deduplicated by a canonical key (model classes + slab structure + hidden handle tables); every transition calls the real API and compares every returned value/error/count/type with a []value model; distinct_nontrivial = distinct canonical states"
	r.Assumptions = []string{
		"value contents are abstracted to (kind, encoded size) in the state key; contents are still compared on every transition",
		"closure results hold for all histories staying inside the bounded universe; trajectory neighbourhoods are depth-bounded",
	}
	var specs []Spec
	or := []string{"sem", "oob", "reopen"}
	if !r.Thorough() {
		specs = append(specs,
			Spec{Name: "arr-small-T256-L5", Kind: "arr-small", T: 256, L: 5, Classes: []string{"t", "mid", "limA", "limA+"}, Oracles: or},
		)
	} else {
		specs = append(specs,
			Spec{Name: "arr-small-T256-L6", Kind: "arr-small", T: 256, L: 6, Classes: []string{"t", "u5", "mid", "limA", "limA+", "s:limA"}, Oracles: or},
		)
	}
	r.ExploreSpecs(specs)
}
