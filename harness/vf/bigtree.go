package vf

import (
	"encoding/json"
	"fmt"
	"github.com/onflow/atree"
)

// bigtree: magnitudes the closures and trajectories do not reach — element counts beyond 65 535 (two-byte CBOR heads
// and 16/32-bit count fields), trees of four levels, and a tree collapsing step by step back to a lone root:
//
//	arr-tiny  : 70 000 three-byte scalars appended (count > 65 535; thousands of leaves)
//	arr-lim   : 4 000 elements exactly at the inline limit (>= 4 levels at slab size 256)
//	map-tiny  : 5 000 small entries (default digester; thousands of entries per slab at the large slab size)
//	map-lim   : 2 500 entries with values at the inline limit (4 levels at slab size 256)
//
// Build with the model compared at checkpoints (incl. positional / keyed reads at first / last / boundary positions),
// full oracle set at the top (content, verifiers, independent structure, commit, reopen, reachability), then
// drain from the front, the back and the middle with checkpoints on the way down, to empty: only the root remains.
type bigTreeArg struct {
	T    uint32 `json:"t"`
	Kind string `json:"kind"`
	N    int    `json:"n"`
}

func bigTreeTask(raw json.RawMessage) TaskResult {
	var a bigTreeArg
	var res TaskResult
	if err := json.Unmarshal(raw, &a); err != nil {
		res.Herr = err.Error()
		return res
	}
	what := fmt.Sprintf("%s with %d elements at slab size %d", a.Kind, a.N, a.T)
	res.Distinct = append(res.Distinct, what)
	res.Samples = append(res.Samples, what)
	isMap := a.Kind == "map-tiny" || a.Kind == "map-lim"
	cl := "t"
	switch a.Kind {
	case "arr-lim":
		cl = "limA"
	case "map-lim":
		cl = "limM"
	}
	w := NewWorld(a.T)
	w.KeyOf = func(n int) MV { return Scalar{uint64(n)} }
	step := func(o Op) bool {
		res.Evals++
		if err := w.Apply(o); err != nil {
			res.Viols = append(res.Viols, fmt.Sprintf("%s: after %d operations: %v", what, res.Evals, err))
			return false
		}
		return true
	}
	check := func(or ...string) bool {
		if err := RunOracles(w, Spec{Oracles: or}); err != nil {
			res.Viols = append(res.Viols, fmt.Sprintf("%s: after %d operations: %v", what, res.Evals, err))
			return false
		}
		return true
	}
	first := Op{K: "newarr"}
	if isMap {
		first = Op{K: "newmap"}
	}
	if !step(first) {
		return res
	}
	probe := func(n int) bool {
		// positional / keyed reads at the first, the last and the power-of-two / CBOR-width boundary positions
		for _, p := range []int{0, 1, 22, 23, 24, 254, 255, 256, 257, 65534, 65535, 65536, n / 2, n - 2, n - 1} {
			if p < 0 || p >= n {
				continue
			}
			o := Op{K: "get", C: 0, I: uint64(p)}
			if isMap {
				o = Op{K: "mget", C: 0, Key: p}
			}
			if !step(o) {
				return false
			}
			if !isMap {
				// the same position read as the start of a short read-only range (positions inside a deep tree
				// are found by a different descent than Get's)
				c := w.Conts[0]
				e := p + 2
				if e > n {
					e = n
				}
				var got []atree.Value
				res.Evals++
				err := c.Arr.IterateReadOnlyRange(uint64(p), uint64(e), func(v atree.Value) (bool, error) { got = append(got, v); return true, nil })
				if err == nil {
					err = w.cmpSeq(fmt.Sprintf("IterateReadOnlyRange(%d,%d)", p, e), got, c.Elems[p:e])
				}
				if err != nil {
					res.Viols = append(res.Viols, fmt.Sprintf("%s: %d elements: %v", what, n, err))
					return false
				}
			}
		}
		return true
	}
	for i := 0; i < a.N; i++ {
		o := Op{K: "append", C: 0, V: cl}
		if isMap {
			o = Op{K: "mset", C: 0, Key: i, V: cl}
		}
		if !step(o) {
			return res
		}
		if i == 255 || i == 256 || i == 65535 || i == 65536 || i == a.N/3 {
			if !probe(i+1) || !check("sem", "struct") {
				return res
			}
		}
	}
	if !probe(a.N) || !check("sem", "struct", "regs", "reach", "reopen") {
		return res
	}
	// a few overwrites and inserts in the full tree (first / middle / last), then drain
	n := a.N
	if isMap {
		for _, k := range []int{0, n / 2, n - 1} {
			if !step(Op{K: "mset", C: 0, Key: k, V: "s10"}) {
				return res
			}
		}
	} else {
		for _, p := range []int{0, n / 2, n - 1} {
			if !step(Op{K: "set", C: 0, I: uint64(p), V: "s10"}) || !step(Op{K: "insert", C: 0, I: uint64(p), V: "t"}) {
				return res
			}
			n++
		}
	}
	if !check("sem", "struct") {
		return res
	}
	// drain: alternately from the front, the back and the middle
	left := n
	cp := map[int]bool{n / 2: true, n / 8: true, 65536: true, 65535: true, 300: true, 256: true, 255: true, 30: true, 3: true, 2: true, 1: true}
	keyLo, keyHi := 0, a.N-1 // maps: remaining key range [keyLo, keyHi] (keys are 0..N-1)
	for i := 0; left > 0; i++ {
		var o Op
		if isMap {
			k := keyLo
			if i%2 == 1 {
				k = keyHi
			}
			o = Op{K: "mremove", C: 0, Key: k}
			if i%2 == 1 {
				keyHi--
			} else {
				keyLo++
			}
		} else {
			p := 0
			switch i % 3 {
			case 1:
				p = left - 1
			case 2:
				p = left / 2
			}
			o = Op{K: "remove", C: 0, I: uint64(p)}
		}
		if !step(o) {
			return res
		}
		left--
		if cp[left] {
			if !check("sem", "struct") {
				return res
			}
		}
	}
	check("sem", "struct", "reach", "reopen")
	return res
}

func init() { RegisterTask("bigtree", bigTreeTask) }

func bigTreeArgs(kinds ...string) []any {
	var args []any
	// (the harness's dictionary model looks keys up linearly: map sizes are kept where that stays cheap)
	size := map[string]int{"arr-tiny": 70000, "arr-lim": 4000, "map-tiny": 5000, "map-lim": 2500}
	for _, k := range kinds {
		args = append(args, bigTreeArg{T: 256, Kind: k, N: size[k]})
	}
	// one large slab size: many elements per leaf, element counts per slab cross 255 / 256
	for _, k := range kinds {
		if k == "arr-tiny" || k == "map-tiny" {
			args = append(args, bigTreeArg{T: 8192, Kind: k, N: size[k]})
		}
	}
	return args
}
