package vf

import (
	"encoding/binary"
	"errors"
)

var errCBOR = errors.New("cbor: malformed or unsupported item")

// cborHead parses the head of a CBOR item: major type, argument, head length.
func cborHead(b []byte) (major byte, arg uint64, n int, err error) {
	if len(b) == 0 {
		return 0, 0, 0, errCBOR
	}
	major = b[0] >> 5
	ai := b[0] & 0x1f
	switch {
	case ai < 24:
		return major, uint64(ai), 1, nil
	case ai == 24:
		if len(b) < 2 {
			return 0, 0, 0, errCBOR
		}
		return major, uint64(b[1]), 2, nil
	case ai == 25:
		if len(b) < 3 {
			return 0, 0, 0, errCBOR
		}
		return major, uint64(binary.BigEndian.Uint16(b[1:])), 3, nil
	case ai == 26:
		if len(b) < 5 {
			return 0, 0, 0, errCBOR
		}
		return major, uint64(binary.BigEndian.Uint32(b[1:])), 5, nil
	case ai == 27:
		if len(b) < 9 {
			return 0, 0, 0, errCBOR
		}
		return major, binary.BigEndian.Uint64(b[1:]), 9, nil
	}
	return 0, 0, 0, errCBOR // indefinite lengths are never produced by atree
}

// cborItemLen returns the encoded length of the first complete CBOR item of b.
func cborItemLen(b []byte) (int, error) {
	return cborItemLenDepth(b, 0)
}

func cborItemLenDepth(b []byte, depth int) (int, error) {
	if depth > 64 {
		return 0, errCBOR
	}
	major, arg, n, err := cborHead(b)
	if err != nil {
		return 0, err
	}
	switch major {
	case 0, 1, 7:
		return n, nil
	case 2, 3:
		if arg > uint64(len(b)-n) {
			return 0, errCBOR
		}
		return n + int(arg), nil
	case 4, 5:
		cnt := arg
		if major == 5 {
			if cnt > uint64(len(b)) {
				return 0, errCBOR
			}
			cnt *= 2
		}
		if cnt > uint64(len(b)) {
			return 0, errCBOR
		}
		off := n
		for i := uint64(0); i < cnt; i++ {
			l, err := cborItemLenDepth(b[off:], depth+1)
			if err != nil {
				return 0, err
			}
			off += l
		}
		return off, nil
	case 6:
		l, err := cborItemLenDepth(b[n:], depth+1)
		if err != nil {
			return 0, err
		}
		return n + l, nil
	}
	return 0, errCBOR
}

// RegLayout is the harness's own reading of a version-1 register's fixed layout.
type RegLayout struct {
	Version      byte
	Flags        byte
	Root         bool
	HasPointers  bool
	AnySize      bool
	HasInlined   bool
	HasNext      bool
	Kind         string // arrayData arrayMeta mapData mapMeta collisionGroup storable
	ExtraLen     int    // length of the root extra-data section
	InlinedLen   int    // length of the shared inlined-extra-data section
	ContentStart int
}

func ParseRegLayout(b []byte) (RegLayout, error) {
	var r RegLayout
	if len(b) < 2 {
		return r, errCBOR
	}
	r.Version = b[0] >> 4
	r.Flags = b[1]
	r.Root = b[1]&0x80 != 0
	r.HasPointers = b[1]&0x40 != 0
	r.AnySize = b[1]&0x20 != 0
	r.HasInlined = b[0]&0x01 != 0
	r.HasNext = b[0]&0x02 != 0
	switch b[1] & 0x1f {
	case 0x00:
		r.Kind = "arrayData"
	case 0x01:
		r.Kind = "arrayMeta"
	case 0x08:
		r.Kind = "mapData"
	case 0x09:
		r.Kind = "mapMeta"
	case 0x0b:
		r.Kind = "collisionGroup"
	case 0x1f:
		r.Kind = "storable"
	default:
		return r, errCBOR
	}
	off := 2
	if r.Kind == "storable" {
		r.ContentStart = off
		return r, nil
	}
	if r.Root {
		l, err := cborItemLen(b[off:])
		if err != nil {
			return r, err
		}
		r.ExtraLen = l
		off += l
	}
	if r.HasInlined {
		l, err := cborItemLen(b[off:])
		if err != nil {
			return r, err
		}
		r.InlinedLen = l
		off += l
	}
	r.ContentStart = off
	return r, nil
}
