package vf

import (
	"errors"
	"fmt"
	"sort"

	"github.com/onflow/atree"
	tu "github.com/onflow/atree/test_utils"
)

// canonMapOrder returns indices into c.Keys in canonical enumeration order: ascending digest
// tuple (4 levels), insertion order among keys colliding on every level.
func (w *World) canonMapOrder(c *Cont) ([]int, error) {
	type kd struct {
		i int
		d [4]uint64
	}
	ks := make([]kd, len(c.Keys))
	for i, k := range c.Keys {
		ks[i].i = i
		if w.Digests != nil && c.Table {
			ks[i].d = w.Digests.digestsOf(keyNumber(k))
			continue
		}
		if err := w.EnsureHandle(c); err != nil {
			return nil, err
		}
		b := atree.NewDefaultDigesterBuilder()
		b.SetSeed(c.Map.Seed(), 0)
		dg, err := b.Digest(GetHashInput, ToAtree(k))
		if err != nil {
			return nil, fmt.Errorf("harness: digest: %w", err)
		}
		for l := uint(0); l < 4; l++ {
			d, err := dg.Digest(l)
			if err != nil {
				return nil, fmt.Errorf("harness: digest level %d: %w", l, err)
			}
			ks[i].d[l] = uint64(d)
		}
	}
	sort.SliceStable(ks, func(a, b int) bool {
		for l := 0; l < 4; l++ {
			if ks[a].d[l] != ks[b].d[l] {
				return ks[a].d[l] < ks[b].d[l]
			}
		}
		return false
	})
	out := make([]int, len(ks))
	for i, k := range ks {
		out[i] = k.i
	}
	return out, nil
}

func (w *World) cmpSeq(what string, got []atree.Value, want []MV) error {
	if len(got) != len(want) {
		return violf("%s yields %d elements, want %d", what, len(got), len(want))
	}
	for i := range got {
		if err := w.CmpValue(got[i], want[i]); err != nil {
			return wrapViol(err, fmt.Sprintf("%s position %d: ", what, i))
		}
	}
	return nil
}

func drainArr(it atree.ArrayIterator, err error) ([]atree.Value, error) {
	if err != nil {
		return nil, err
	}
	var out []atree.Value
	for {
		v, err := it.Next()
		if err != nil {
			return nil, err
		}
		if v == nil {
			return out, nil
		}
		out = append(out, v)
		if len(out) > 100000 {
			return nil, errors.New("iterator does not terminate")
		}
	}
}

// OIterArray checks every non-mutating enumeration flavour of an array against the model.
func (w *World) OIterArray(c *Cont) error {
	a := c.Arr
	name := fmt.Sprintf("array c%d ", c.Serial)
	want := c.Elems
	n := uint64(len(want))
	got, err := drainArr(a.ReadOnlyIterator())
	if err != nil {
		return violf("%sReadOnlyIterator: %v", name, err)
	}
	if err := w.cmpSeq(name+"ReadOnlyIterator", got, want); err != nil {
		return err
	}
	got = nil
	if err := a.IterateReadOnly(func(v atree.Value) (bool, error) { got = append(got, v); return true, nil }); err != nil {
		return violf("%sIterateReadOnly: %v", name, err)
	}
	if err := w.cmpSeq(name+"IterateReadOnly", got, want); err != nil {
		return err
	}
	// early stop
	if n > 1 {
		cnt := 0
		if err := a.IterateReadOnly(func(v atree.Value) (bool, error) { cnt++; return cnt < 1, nil }); err != nil || cnt != 1 {
			return violf("%sIterateReadOnly with early stop visited %d elements (err %v)", name, cnt, err)
		}
	}
	// ranges
	var pairs [][2]uint64
	if n <= 8 {
		for s := uint64(0); s <= n; s++ {
			for e := s; e <= n; e++ {
				pairs = append(pairs, [2]uint64{s, e})
			}
		}
	} else {
		pts := []uint64{0, 1, n / 2, n - 1, n}
		for _, s := range leafStartsOf(w, c) {
			pts = append(pts, uint64(s))
			if s > 0 {
				pts = append(pts, uint64(s-1))
			}
		}
		for _, s := range pts {
			for _, e := range pts {
				if s <= e && e <= n {
					pairs = append(pairs, [2]uint64{s, e})
				}
			}
		}
	}
	for _, p := range pairs {
		got, err := drainArr(a.ReadOnlyRangeIterator(p[0], p[1]))
		if err != nil {
			return violf("%sReadOnlyRangeIterator(%d,%d): %v", name, p[0], p[1], err)
		}
		if err := w.cmpSeq(fmt.Sprintf("%sReadOnlyRangeIterator(%d,%d)", name, p[0], p[1]), got, want[p[0]:p[1]]); err != nil {
			return err
		}
		got = nil
		if err := a.IterateReadOnlyRange(p[0], p[1], func(v atree.Value) (bool, error) { got = append(got, v); return true, nil }); err != nil {
			return violf("%sIterateReadOnlyRange(%d,%d): %v", name, p[0], p[1], err)
		}
		if err := w.cmpSeq(fmt.Sprintf("%sIterateReadOnlyRange(%d,%d)", name, p[0], p[1]), got, want[p[0]:p[1]]); err != nil {
			return err
		}
	}
	// invalid ranges
	if err := invalidRanges(a, name, n); err != nil {
		return err
	}
	// mutable flavours (these install callbacks; the world is thrown away afterwards)
	got, err = drainArr(a.Iterator())
	if err != nil {
		return violf("%sIterator: %v", name, err)
	}
	if err := w.cmpSeq(name+"Iterator", got, want); err != nil {
		return err
	}
	got = nil
	if err := a.Iterate(func(v atree.Value) (bool, error) { got = append(got, v); return true, nil }); err != nil {
		return violf("%sIterate: %v", name, err)
	}
	if err := w.cmpSeq(name+"Iterate", got, want); err != nil {
		return err
	}
	for _, p := range pairs {
		if len(pairs) > 60 && (p[0]+p[1])%3 != 0 {
			continue
		}
		got, err := drainArr(a.RangeIterator(p[0], p[1]))
		if err != nil {
			return violf("%sRangeIterator(%d,%d): %v", name, p[0], p[1], err)
		}
		if err := w.cmpSeq(fmt.Sprintf("%sRangeIterator(%d,%d)", name, p[0], p[1]), got, want[p[0]:p[1]]); err != nil {
			return err
		}
	}
	// positional access agrees
	for i := uint64(0); i < n; i++ {
		if n > 16 && i%5 != 0 && i != n-1 {
			continue
		}
		v, err := a.Get(i)
		if err != nil {
			return violf("%sGet(%d): %v", name, i, err)
		}
		if err := w.CmpValue(v, want[i]); err != nil {
			return wrapViol(err, fmt.Sprintf("%sGet(%d): ", name, i))
		}
	}
	return nil
}

func leafStartsOf(w *World, c *Cont) []int {
	if c.Serial == 0 {
		return leafStarts(w)
	}
	return nil
}

type kvPair struct{ k, v atree.Value }

func drainMap(it atree.MapIterator, err error) ([]kvPair, error) {
	if err != nil {
		return nil, err
	}
	var out []kvPair
	for {
		k, v, err := it.Next()
		if err != nil {
			return nil, err
		}
		if k == nil {
			return out, nil
		}
		out = append(out, kvPair{k, v})
		if len(out) > 100000 {
			return nil, errors.New("iterator does not terminate")
		}
	}
}

func (w *World) cmpPairs(what string, got []kvPair, c *Cont, order []int) error {
	if len(got) != len(order) {
		return violf("%s yields %d entries, want %d", what, len(got), len(order))
	}
	for i, p := range got {
		if p.k != nil {
			if err := w.CmpValue(p.k, c.Keys[order[i]]); err != nil {
				return violf("%s position %d yields key %v, canonical order wants %s", what, i, p.k, MVString(c.Keys[order[i]]))
			}
		}
		if p.v != nil {
			if err := w.CmpValue(p.v, c.Vals[order[i]]); err != nil {
				return wrapViol(err, fmt.Sprintf("%s position %d value: ", what, i))
			}
		}
	}
	return nil
}

// OIterMap checks every non-mutating enumeration flavour of a map against the model.
func (w *World) OIterMap(c *Cont) error {
	m := c.Map
	name := fmt.Sprintf("map c%d ", c.Serial)
	order, err := w.canonMapOrder(c)
	if err != nil {
		return err
	}
	got, err := drainMap(m.ReadOnlyIterator())
	if err != nil {
		return violf("%sReadOnlyIterator: %v", name, err)
	}
	if err := w.cmpPairs(name+"ReadOnlyIterator", got, c, order); err != nil {
		return err
	}
	got = nil
	if err := m.IterateReadOnly(func(k, v atree.Value) (bool, error) { got = append(got, kvPair{k, v}); return true, nil }); err != nil {
		return violf("%sIterateReadOnly: %v", name, err)
	}
	if err := w.cmpPairs(name+"IterateReadOnly", got, c, order); err != nil {
		return err
	}
	got = nil
	if err := m.IterateReadOnlyKeys(func(k atree.Value) (bool, error) { got = append(got, kvPair{k, nil}); return true, nil }); err != nil {
		return violf("%sIterateReadOnlyKeys: %v", name, err)
	}
	if err := w.cmpPairs(name+"IterateReadOnlyKeys", got, c, order); err != nil {
		return err
	}
	got = nil
	if err := m.IterateReadOnlyValues(func(v atree.Value) (bool, error) { got = append(got, kvPair{nil, v}); return true, nil }); err != nil {
		return violf("%sIterateReadOnlyValues: %v", name, err)
	}
	if err := w.cmpPairs(name+"IterateReadOnlyValues", got, c, order); err != nil {
		return err
	}
	// NextKey / NextValue on read-only iterators
	{
		it, err := m.ReadOnlyIterator()
		if err != nil {
			return violf("%sReadOnlyIterator: %v", name, err)
		}
		got = nil
		for {
			k, err := it.NextKey()
			if err != nil {
				return violf("%sReadOnlyIterator.NextKey: %v", name, err)
			}
			if k == nil {
				break
			}
			got = append(got, kvPair{k, nil})
		}
		if err := w.cmpPairs(name+"ReadOnlyIterator.NextKey", got, c, order); err != nil {
			return err
		}
		it, _ = m.ReadOnlyIterator()
		got = nil
		for {
			v, err := it.NextValue()
			if err != nil {
				return violf("%sReadOnlyIterator.NextValue: %v", name, err)
			}
			if v == nil {
				break
			}
			got = append(got, kvPair{nil, v})
		}
		if err := w.cmpPairs(name+"ReadOnlyIterator.NextValue", got, c, order); err != nil {
			return err
		}
	}
	// mutable flavours
	got, err = drainMap(m.Iterator(CompareValue, GetHashInput))
	if err != nil {
		return violf("%sIterator: %v", name, err)
	}
	if err := w.cmpPairs(name+"Iterator", got, c, order); err != nil {
		return err
	}
	got = nil
	if err := m.Iterate(CompareValue, GetHashInput, func(k, v atree.Value) (bool, error) { got = append(got, kvPair{k, v}); return true, nil }); err != nil {
		return violf("%sIterate: %v", name, err)
	}
	if err := w.cmpPairs(name+"Iterate", got, c, order); err != nil {
		return err
	}
	got = nil
	if err := m.IterateKeys(CompareValue, GetHashInput, func(k atree.Value) (bool, error) { got = append(got, kvPair{k, nil}); return true, nil }); err != nil {
		return violf("%sIterateKeys: %v", name, err)
	}
	if err := w.cmpPairs(name+"IterateKeys", got, c, order); err != nil {
		return err
	}
	got = nil
	if err := m.IterateValues(CompareValue, GetHashInput, func(v atree.Value) (bool, error) { got = append(got, kvPair{nil, v}); return true, nil }); err != nil {
		return violf("%sIterateValues: %v", name, err)
	}
	if err := w.cmpPairs(name+"IterateValues", got, c, order); err != nil {
		return err
	}
	// keyed access agrees
	for i, k := range c.Keys {
		v, err := m.Get(CompareValue, GetHashInput, ToAtree(k))
		if err != nil {
			return violf("%sGet(%s): %v", name, MVString(k), err)
		}
		if err := w.CmpValue(v, c.Vals[i]); err != nil {
			return wrapViol(err, fmt.Sprintf("%sGet(%s): ", name, MVString(k)))
		}
	}
	return nil
}

// OIter runs the enumeration oracles on every live root and its direct container children.
func OIter(w *World) error {
	for _, c := range w.Conts {
		if c.Dead || depthOf(c) > 1 {
			continue
		}
		if err := w.EnsureHandle(c); err != nil {
			return err
		}
		var err error
		if c.IsMap {
			err = w.OIterMap(c)
		} else {
			err = w.OIterArray(c)
		}
		if err != nil {
			return err
		}
	}
	return nil
}

// OIterLoaded: after commit, on fresh storages over the ledger with every subset (bounded) of the
// non-root slabs loaded, the loaded-value iterators yield exactly the elements that live in loaded,
// reachable slabs, in canonical order (an in-order subsequence; everything when all is loaded).
func OIterLoaded(w *World) error {
	if err := w.Commit(1, false); err != nil {
		return err
	}
	for _, c := range w.LiveRoots() {
		if c.SID.HasTempAddress() {
			continue
		}
		// slabs of this tree, from a scratch walk over a fresh storage
		base := &World{T: w.T, Ledger: w.Ledger, Addr: w.Addr, Digests: w.Digests, KeyOf: w.KeyOf}
		base.St = NewStorage(w.Ledger)
		base.Conts = cloneConts(w.Conts)
		wk := base.DoWalk()
		var others []atree.SlabID
		for _, r := range wk.Recs {
			if r.Root == c.Serial && r.ID != c.SID {
				others = append(others, r.ID)
			}
		}
		k := len(others)
		var subsets [][]atree.SlabID
		if k <= 6 {
			for mask := 0; mask < 1<<k; mask++ {
				var s []atree.SlabID
				for i := 0; i < k; i++ {
					if mask&(1<<i) != 0 {
						s = append(s, others[i])
					}
				}
				subsets = append(subsets, s)
			}
		} else {
			subsets = append(subsets, nil, others)
			for i := 0; i < k; i++ {
				subsets = append(subsets, []atree.SlabID{others[i]})
				var all []atree.SlabID
				all = append(all, others[:i]...)
				all = append(all, others[i+1:]...)
				subsets = append(subsets, all)
			}
		}
		for _, sub := range subsets {
			if err := w.checkLoadedSubset(c, sub, len(sub) == k); err != nil {
				return err
			}
		}
	}
	return nil
}

func (w *World) checkLoadedSubset(c *Cont, sub []atree.SlabID, all bool) error {
	st := NewStorage(w.Ledger)
	ids := append([]atree.SlabID{c.SID}, sub...)
	if err := st.BatchPreload(ids, 1); err != nil {
		return violf("BatchPreload: %v", err)
	}
	loaded := map[atree.SlabID]bool{}
	for _, id := range ids {
		loaded[id] = true
	}
	tmp := &World{T: w.T, Ledger: w.Ledger, St: st, Digests: w.Digests, KeyOf: w.KeyOf}
	what := fmt.Sprintf("c%d loaded-value iteration with %d of the non-root slabs loaded", c.Serial, len(sub))
	if c.IsMap {
		m, err := atree.NewMapWithRootID(st, c.SID, w.builderFor(c))
		if err != nil {
			return violf("%s: open: %v", what, err)
		}
		it, err := m.ReadOnlyLoadedValueIterator()
		if err != nil {
			return violf("%s: %v", what, err)
		}
		got, err := drainMap(it, nil)
		if err != nil {
			return violf("%s: Next: %v", what, err)
		}
		order, err := w.canonMapOrder(c)
		if err != nil {
			return err
		}
		// expected: entries whose key and value are fully loaded... computed as an in-order
		// subsequence check; full when everything is loaded
		pos := 0
		for _, p := range got {
			found := false
			for pos < len(order) {
				i := order[pos]
				pos++
				if tmp.CmpValue(p.k, c.Keys[i]) == nil {
					if err := tmp.CmpValueLoaded(p.v, c.Vals[i]); err != nil {
						return wrapViol(err, what+": value: ")
					}
					found = true
					break
				}
			}
			if !found {
				return violf("%s: yields key %v out of order or not in the map", what, p.k)
			}
		}
		if all && len(got) != len(order) {
			return violf("%s: everything is loaded but only %d of %d entries are yielded", what, len(got), len(order))
		}
		return nil
	}
	a, err := atree.NewArrayWithRootID(st, c.SID)
	if err != nil {
		return violf("%s: open: %v", what, err)
	}
	it, err := a.ReadOnlyLoadedValueIterator()
	if err != nil {
		return violf("%s: %v", what, err)
	}
	var got []atree.Value
	for {
		v, err := it.Next()
		if err != nil {
			return violf("%s: Next: %v", what, err)
		}
		if v == nil {
			break
		}
		got = append(got, v)
	}
	pos := 0
	for _, g := range got {
		found := false
		for pos < len(c.Elems) {
			e := c.Elems[pos]
			pos++
			if tmp.CmpValueLoaded(g, e) == nil {
				found = true
				break
			}
		}
		if !found {
			return violf("%s: yields %v which is out of order or not an element", what, g)
		}
	}
	if all && len(got) != len(c.Elems) {
		return violf("%s: everything is loaded but only %d of %d elements are yielded", what, len(got), len(c.Elems))
	}
	return nil
}

// CmpValueLoaded compares without loading anything: nested containers are compared by identity only.
func (w *World) CmpValueLoaded(real atree.Value, m MV) error {
	u, _ := Unwrap(m)
	if c, ok := u.(*Cont); ok {
		switch r := unwrapReal(real).(type) {
		case *atree.Array:
			if r.ValueID() != c.VID {
				return violf("value id %s, want %s", r.ValueID(), c.VID)
			}
			return nil
		case *atree.OrderedMap:
			if r.ValueID() != c.VID {
				return violf("value id %s, want %s", r.ValueID(), c.VID)
			}
			return nil
		}
		return violf("got %T, want container", real)
	}
	return w.CmpValue(real, m)
}

// OReadOnlyMutation: mutating a nested container obtained from a read-only iterator reports the
// read-only mutation error.
func OReadOnlyMutation(w *World) error {
	for _, c := range w.LiveRoots() {
		if err := w.EnsureHandle(c); err != nil {
			return err
		}
		var children []atree.Value
		if c.IsMap {
			ps, err := drainMap(c.Map.ReadOnlyIterator())
			if err != nil {
				return violf("ReadOnlyIterator: %v", err)
			}
			for _, p := range ps {
				children = append(children, p.v)
			}
		} else {
			vs, err := drainArr(c.Arr.ReadOnlyIterator())
			if err != nil {
				return violf("ReadOnlyIterator: %v", err)
			}
			children = vs
		}
		for _, v := range children {
			var err error
			switch h := unwrapReal(v).(type) {
			case *atree.Array:
				err = h.Append(tu.Uint64Value(1))
			case *atree.OrderedMap:
				_, err = h.Set(CompareValue, GetHashInput, tu.Uint64Value(77), tu.Uint64Value(1))
			default:
				continue
			}
			var roe *atree.ReadOnlyIteratorElementMutationError
			if !errors.As(err, &roe) {
				return violf("mutating a child of c%d obtained from a read-only iterator returned %v, want the read-only mutation error", c.Serial, err)
			}
		}
	}
	return nil
}


// invalidRanges: every class of invalid (start, end) pair on every range entry point of an array must be refused
// with the documented error type and the caller-mistake category (incl. IterateRange, the callback form of the
// mutable range iterator, and empty ranges that lie past the end).
func invalidRanges(a *atree.Array, name string, n uint64) error {
	type bad struct {
		s, e uint64
		k    errKind
	}
	bads := []bad{{n + 1, n + 1, errSliceOOB}, {0, n + 1, errSliceOOB}, {n + 1, n + 2, errSliceOOB}, {n + 2, n + 2, errSliceOOB},
		{1 << 40, 1 << 41, errSliceOOB}, {1 << 32, 1 << 32, errSliceOOB}, {^uint64(0), ^uint64(0), errSliceOOB}}
	if n >= 1 {
		bads = append(bads, bad{1, 0, errInvalidSlice}, bad{n, n - 1, errInvalidSlice})
	}
	for _, b := range bads {
		_, err := a.ReadOnlyRangeIterator(b.s, b.e)
		if e := checkErr(err, b.k, fmt.Sprintf("%sReadOnlyRangeIterator(%d,%d)", name, b.s, b.e)); e != nil {
			return e
		}
		_, err = a.RangeIterator(b.s, b.e)
		if e := checkErr(err, b.k, fmt.Sprintf("%sRangeIterator(%d,%d)", name, b.s, b.e)); e != nil {
			return e
		}
		err = a.IterateReadOnlyRange(b.s, b.e, func(atree.Value) (bool, error) { return true, nil })
		if e := checkErr(err, b.k, fmt.Sprintf("%sIterateReadOnlyRange(%d,%d)", name, b.s, b.e)); e != nil {
			return e
		}
		err = a.IterateRange(b.s, b.e, func(atree.Value) (bool, error) { return true, nil })
		if e := checkErr(err, b.k, fmt.Sprintf("%sIterateRange(%d,%d)", name, b.s, b.e)); e != nil {
			return e
		}
	}
	return nil
}

// ORanges: the invalid-range classes on every live array (C18: rejected requests are categorised).
func ORanges(w *World) error {
	for _, c := range w.Conts {
		if c.Dead || c.IsMap {
			continue
		}
		if err := w.EnsureHandle(c); err != nil {
			return err
		}
		if err := invalidRanges(c.Arr, fmt.Sprintf("array c%d ", c.Serial), uint64(len(c.Elems))); err != nil {
			return err
		}
	}
	return nil
}
