package vf

import (
	"fmt"
)

// baseSpace implements Build/Check shared by the container spaces.
type baseSpace struct {
	spec Spec
	seed []Op
}

func (b *baseSpace) newWorld() *World {
	w := NewWorld(b.spec.T)
	if b.spec.Digests != nil {
		w.Digests = NewDigestTable()
		for k, d := range b.spec.Digests {
			var n uint64
			fmt.Sscanf(k, "%d", &n)
			w.Digests.Table[n] = d
		}
		if b.spec.Limit >= 0 && b.spec.Extra["limit"] == 1 {
			w.Digests.Limit = uint32(b.spec.Limit)
		}
	}
	w.StrictErr = b.spec.Has("errors")
	return w
}

func (b *baseSpace) Build(path []Op) (*World, error) {
	w := b.newWorld()
	if w.Digests != nil {
		// the collision limit is a process-wide global of the library
		setCollisionLimit(w.Digests.Limit)
	}
	for _, op := range b.seed {
		if err := w.Apply(op); err != nil {
			return nil, fmt.Errorf("seed op %s: %w", op, err)
		}
	}
	for _, op := range path {
		if err := w.Apply(op); err != nil {
			return nil, err
		}
	}
	return w, nil
}

func (b *baseSpace) Check(w *World) error {
	return RunOracles(w, b.spec)
}

// ---- arr-small: closure over one root array with at most L elements ------------------------

type arrSmall struct {
	baseSpace
}

func init() {
	RegisterSpace("arr-small", func(s Spec) Space {
		sp := &arrSmall{baseSpace{spec: s}}
		sp.seed = []Op{{K: "newarr"}}
		return sp
	})
}

// outOfRange positions relative to a count n.
func oobIndexes(n uint64) []uint64 {
	return []uint64{n, n + 1, 1 << 32, ^uint64(0)}
}

func (s *arrSmall) Ops(w *World) []Op {
	c := w.Conts[0]
	n := uint64(len(c.Elems))
	var ops []Op
	if int(n) < s.spec.L {
		for _, cl := range s.spec.Classes {
			ops = append(ops, Op{K: "append", C: 0, V: cl})
		}
		for i := uint64(0); i < n; i++ {
			for _, cl := range s.spec.Classes {
				ops = append(ops, Op{K: "insert", C: 0, I: i, V: cl})
			}
		}
	}
	for i := uint64(0); i < n; i++ {
		for _, cl := range s.spec.Classes {
			ops = append(ops, Op{K: "set", C: 0, I: i, V: cl})
		}
		ops = append(ops, Op{K: "remove", C: 0, I: i})
		ops = append(ops, Op{K: "get", C: 0, I: i})
	}
	if n > 0 {
		ops = append(ops, Op{K: "pop", C: 0})
	}
	if c.TypeID == 42 {
		ops = append(ops, Op{K: "settype", C: 0, N: 43})
	}
	if s.spec.Has("oob") {
		cl := s.spec.Classes[0]
		for _, i := range oobIndexes(n) {
			ops = append(ops, Op{K: "get", C: 0, I: i})
			ops = append(ops, Op{K: "set", C: 0, I: i, V: cl})
			ops = append(ops, Op{K: "remove", C: 0, I: i})
			if i != n {
				ops = append(ops, Op{K: "insert", C: 0, I: i, V: cl})
			}
		}
	}
	if s.spec.Has("events") {
		ops = append(ops, Op{K: "commit", N: 1}, Op{K: "reopen"})
	}
	return ops
}
