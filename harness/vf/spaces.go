package vf

import (
	"fmt"
	"strings"
)

// baseSpace implements Build/Check shared by the container spaces.
type baseSpace struct {
	spec Spec
	seed []Op
}

func (b *baseSpace) newWorld() *World {
	w := NewWorld(b.spec.T)
	if b.spec.Digests != nil {
		w.Digests = NewDigestTable()
		for k, d := range b.spec.Digests {
			var n uint64
			fmt.Sscanf(k, "%d", &n)
			w.Digests.Table[n] = d
		}
		if b.spec.Limit >= 0 && b.spec.Extra["limit"] == 1 {
			w.Digests.Limit = uint32(b.spec.Limit)
		}
	}
	w.StrictErr = b.spec.Has("errors")
	w.KeyOf = KeyOfDefault
	if b.spec.Extra["kLim"] == 1 {
		w.KeyUniverse = append(w.KeyUniverse, KeyOfDefault(100), KeyOfDefault(101))
	}
	for i := 0; i < b.spec.Extra["realcoll"]; i++ {
		w.KeyUniverse = append(w.KeyUniverse, KeyOfDefault(300+i))
	}
	// Key universe: every key an operation of this space can ever use on any map.
	nScalar, nField := b.spec.Keys, 0
	for _, cl := range b.spec.Classes {
		for strings.HasPrefix(cl, "s:") {
			cl = cl[2:]
		}
		if isContClass(cl) && cl[0] == 'M' {
			n := 0
			if i := strings.IndexByte(cl, ':'); i >= 0 && i+1 < len(cl) {
				n = len(strings.Split(cl[i+1:], ","))
			}
			if strings.HasPrefix(cl, "Mc") {
				if n > nField {
					nField = n
				}
			} else if n > nScalar {
				nScalar = n
			}
		}
	}
	for i := 0; i < nScalar; i++ {
		w.KeyUniverse = append(w.KeyUniverse, w.KeyOf(i))
	}
	for i := 0; i < nField; i++ {
		w.KeyUniverse = append(w.KeyUniverse, Str{fmt.Sprintf("f%d", i)})
	}
	return w
}

// eventOps: commit / cache-drop / reopen events named in the spec's oracle list become alphabet operations.
func (b *baseSpace) eventOps() []Op {
	var ops []Op
	for _, ev := range b.spec.Oracles {
		switch ev {
		case "ev:commit":
			ops = append(ops, Op{K: "commit", N: 1}, Op{K: "commit", N: 3}, Op{K: "ncommit", N: 2})
		case "ev:commit1":
			ops = append(ops, Op{K: "commit", N: 1})
		case "ev:ncommit":
			ops = append(ops, Op{K: "ncommit", N: 2})
		case "ev:cdrop":
			ops = append(ops, Op{K: "cdrop"})
		case "ev:creopen":
			ops = append(ops, Op{K: "creopen"})
		}
	}
	return ops
}

// noLookups: in the crash / cache-transparency / fault spaces lookups cannot change what a commit writes.
func (b *baseSpace) noLookups() bool {
	return b.spec.Has("crash") || b.spec.Has("twin") || b.spec.Has("faults")
}

func dropLookups(ops []Op) []Op {
	out := ops[:0]
	for _, o := range ops {
		if o.K == "get" || o.K == "mget" || o.K == "mhas" {
			continue
		}
		out = append(out, o)
	}
	return out
}

func (b *baseSpace) Build(path []Op) (*World, error) {
	w := b.newWorld()
	if w.Digests != nil {
		// the collision limit is a process-wide global of the library
		setCollisionLimit(w.Digests.Limit)
	}
	if b.spec.Has("crash") || b.spec.Has("twin") || b.spec.Has("faults") {
		// histories contain commit / cache-drop / reopen events: the state key records which storage layer
		// holds each slab, and the space can rebuild its history on a fresh world (differential oracles)
		w.KeyStorage = true
		w.TrackCommits = b.spec.Has("crash")
		w.TwinBase = func() (*World, error) { return b.newWorld(), nil }
	}
	for _, o := range b.spec.Oracles {
		if strings.HasPrefix(o, "ev:") {
			w.KeyStorage = true // histories contain events: clean and dirty slabs are different states
		}
	}
	for _, op := range b.seed {
		if err := w.Apply(op); err != nil {
			return nil, fmt.Errorf("seed op %s: %w", op, err)
		}
	}
	for _, op := range path {
		if err := w.Apply(op); err != nil {
			return nil, err
		}
	}
	return w, nil
}

func (b *baseSpace) Check(w *World) error {
	return RunOracles(w, b.spec)
}

// ---- arr-small: closure over one root array with at most L elements ------------------------

type arrSmall struct {
	baseSpace
}

func init() {
	RegisterSpace("arr-small", func(s Spec) Space {
		sp := &arrSmall{baseSpace{spec: s}}
		sp.seed = []Op{{K: "newarr"}}
		return sp
	})
}

// outOfRange positions relative to a count n.
func oobIndexes(n uint64) []uint64 {
	return []uint64{n, n + 1, 1 << 32, ^uint64(0)}
}

func (s *arrSmall) Ops(w *World) []Op {
	c := w.Conts[0]
	n := uint64(len(c.Elems))
	var ops []Op
	if int(n) < s.spec.L {
		for _, cl := range s.spec.Classes {
			ops = append(ops, Op{K: "append", C: 0, V: cl})
		}
		for i := uint64(0); i < n; i++ {
			for _, cl := range s.spec.Classes {
				ops = append(ops, Op{K: "insert", C: 0, I: i, V: cl})
			}
		}
	}
	for i := uint64(0); i < n; i++ {
		for _, cl := range s.spec.Classes {
			ops = append(ops, Op{K: "set", C: 0, I: i, V: cl})
		}
		ops = append(ops, Op{K: "remove", C: 0, I: i})
		ops = append(ops, Op{K: "get", C: 0, I: i})
	}
	if n > 0 {
		ops = append(ops, Op{K: "pop", C: 0})
	}
	if c.TypeID == 42 {
		ops = append(ops, Op{K: "settype", C: 0, N: 43})
	}
	if s.spec.Has("oob") {
		cls := s.spec.Classes[:1]
		if s.spec.Extra["ooball"] == 1 {
			cls = s.spec.Classes
		}
		for _, i := range oobIndexes(n) {
			ops = append(ops, Op{K: "get", C: 0, I: i})
			ops = append(ops, Op{K: "remove", C: 0, I: i})
			for _, cl := range cls {
				ops = append(ops, Op{K: "set", C: 0, I: i, V: cl})
				if i != n {
					ops = append(ops, Op{K: "insert", C: 0, I: i, V: cl})
				}
			}
		}
	}
	if s.spec.Has("events") {
		ops = append(ops, Op{K: "commit", N: 1}, Op{K: "reopen"})
	}
	ops = append(ops, s.eventOps()...)
	if s.noLookups() {
		ops = dropLookups(ops)
	}
	return ops
}

// KeyOfDefault: 0..99 scalars; 100 = string key exactly at the key inline limit; 101 = one byte over
// (externalised key); 102.. = small string keys "K<n>".
func KeyOfDefault(n int) MV {
	_, _, _, _, _, maxKey := thresholds()
	switch {
	case n < 100:
		return Scalar{uint64(n)}
	case n == 100:
		return Str{StrOfSize(maxKey, "K100.")}
	case n == 101:
		return Str{StrOfSize(maxKey+1, "K101.")}
	case n >= 200 && n < 300:
		return Str{fmt.Sprintf("f%d", n-200)} // field names of composite maps
	case n >= 300 && n < 400:
		// keys that collide on the FIRST digest level under the default digester for every seed:
		// CircleHash64 mixes 16-byte blocks as mix64(a^pi1, b^state); a block starting with pi1 wipes the
		// state, so the 14-byte prefix (after the 2-byte CBOR head) no longer influences the digest.
		return Bytes{fmt.Sprintf("key-%010d", n) + "\x44\x73\x70\x03\x2e\x8a\x19\x13" + "-common-tail"}
	}
	return Str{fmt.Sprintf("K%d", n)}
}

// ---- map-small: closure over one root map with keys from a small universe -----------------

type mapSmall struct {
	baseSpace
	keys []int
}

func init() {
	RegisterSpace("map-small", func(s Spec) Space {
		sp := &mapSmall{baseSpace: baseSpace{spec: s}}
		sp.seed = []Op{{K: "newmap"}}
		for i := 0; i < s.Keys; i++ {
			sp.keys = append(sp.keys, i)
		}
		if s.Extra["kLim"] == 1 {
			sp.keys = append(sp.keys, 100, 101)
		}
		for i := 0; i < s.Extra["realcoll"]; i++ {
			sp.keys = append(sp.keys, 300+i)
		}
		return sp
	})
}

func (s *mapSmall) Ops(w *World) []Op {
	c := w.Conts[0]
	var ops []Op
	for _, k := range s.keys {
		for _, cl := range s.spec.Classes {
			ops = append(ops, Op{K: "mset", C: 0, Key: k, V: cl})
		}
	}
	for _, k := range s.keys {
		ops = append(ops, Op{K: "mremove", C: 0, Key: k})
		ops = append(ops, Op{K: "mget", C: 0, Key: k})
		ops = append(ops, Op{K: "mhas", C: 0, Key: k})
	}
	if len(c.Keys) > 0 {
		ops = append(ops, Op{K: "pop", C: 0})
	}
	if c.TypeID == 42 {
		ops = append(ops, Op{K: "settype", C: 0, N: 43})
	}
	ops = append(ops, s.eventOps()...)
	if s.noLookups() {
		ops = dropLookups(ops)
	}
	return ops
}
