package vf

import (
	"errors"
	"fmt"

	"github.com/onflow/atree"
)

func isCategory(err error) (user, fatal, external bool) {
	var ue *atree.UserError
	var fe *atree.FatalError
	var ee *atree.ExternalError
	return errors.As(err, &ue), errors.As(err, &fe), errors.As(err, &ee)
}

// OBadIDs: undefined / absent identifiers for open, store, remove are refused with an error naming
// the cause, in the limit-or-internal category, and leave no trace.
func OBadIDs(w *World) error {
	before := w.TraceText()
	var absent atree.SlabID
	{
		var idx atree.SlabIndex
		idx[0] = 0xee
		absent = atree.NewSlabID(w.Addr, idx)
	}
	type tc struct {
		what string
		err  error
		typ  string
	}
	var cases []tc
	_, e1 := atree.NewArrayWithRootID(w.St, atree.SlabIDUndefined)
	cases = append(cases, tc{"NewArrayWithRootID(undefined)", e1, "slabid"})
	_, e2 := atree.NewMapWithRootID(w.St, atree.SlabIDUndefined, w.digesterBuilder())
	cases = append(cases, tc{"NewMapWithRootID(undefined)", e2, "slabid"})
	_, e3 := atree.NewArrayWithRootID(w.St, absent)
	cases = append(cases, tc{"NewArrayWithRootID(absent id)", e3, "notfound"})
	_, e4 := atree.NewMapWithRootID(w.St, absent, w.digesterBuilder())
	cases = append(cases, tc{"NewMapWithRootID(absent id)", e4, "notfound"})
	cases = append(cases, tc{"Store(undefined)", w.St.Store(atree.SlabIDUndefined, nil), "slabid"})
	cases = append(cases, tc{"Remove(undefined)", w.St.Remove(atree.SlabIDUndefined), "slabid"})
	_, _, e5 := w.St.GetAllChildReferences(absent)
	cases = append(cases, tc{"GetAllChildReferences(absent id)", e5, "notfound"})
	for _, c := range cases {
		if c.err == nil {
			return violf("%s succeeded", c.what)
		}
		user, fatal, _ := isCategory(c.err)
		ok := false
		switch c.typ {
		case "slabid":
			var t *atree.SlabIDError
			ok = errors.As(c.err, &t)
		case "notfound":
			var t *atree.SlabNotFoundError
			ok = errors.As(c.err, &t)
		}
		if !ok || !fatal || user {
			return violf("%s: error %T %q does not name the cause / carry the limit-or-internal category", c.what, c.err, c.err)
		}
	}
	after := w.TraceText()
	if after != before {
		return violf("requests with undefined/absent identifiers left a trace:\nbefore\n%s\nafter\n%s", before, after)
	}
	return nil
}

// OInject: a failure injected into the i-th call of the key comparator, the hash-input provider
// and (on a fresh storage over the committed ledger) the ledger read, for every i until the lookup
// makes no further call, is reported as an external error.
func OInject(w *World, keys []int) error {
	injected := &injectedFault{"callback"}
	for _, c := range w.LiveRoots() {
		if !c.IsMap {
			continue
		}
		if err := w.EnsureHandle(c); err != nil {
			return err
		}
		for _, kn := range keys {
			key := ToAtree(w.KeyOf(kn))
			for _, which := range []string{"comparator", "hip"} {
				for _, opn := range []string{"Get", "Has"} {
					for fail := 0; ; fail++ {
						calls := 0
						cmp := func(st atree.SlabStorage, v atree.Value, s atree.Storable) (bool, error) {
							if which == "comparator" {
								calls++
								if calls-1 == fail {
									return false, injected
								}
							}
							return CompareValue(st, v, s)
						}
						hip := func(v atree.Value, b []byte) ([]byte, error) {
							if which == "hip" {
								calls++
								if calls-1 == fail {
									return nil, injected
								}
							}
							return GetHashInput(v, b)
						}
						var err error
						if opn == "Get" {
							_, err = c.Map.Get(cmp, hip, key)
						} else {
							_, err = c.Map.Has(cmp, hip, key)
						}
						if calls <= fail {
							break // the lookup made no further call: the fault was not reached
						}
						if err == nil {
							return violf("map c%d %s(k%d) succeeded although %s call #%d failed", c.Serial, opn, kn, which, fail)
						}
						_, _, external := isCategory(err)
						if !external || !IsInjected(err) {
							return violf("map c%d %s(k%d) with %s call #%d failing returned %T %q, want an external error wrapping the callback's error", c.Serial, opn, kn, which, fail, err, err)
						}
					}
				}
			}
		}
	}
	// ledger reads: commit, then every lookup on a fresh storage with the i-th read failing
	if err := w.Commit(1, false); err != nil {
		return err
	}
	for _, c := range w.LiveRoots() {
		if c.SID.HasTempAddress() {
			continue
		}
		nLook := c.Count()
		if c.IsMap {
			nLook = len(keys)
		}
		for li := 0; li <= nLook; li++ {
			for fail := 0; ; fail++ {
				l := w.Ledger.Snapshot()
				l.FailReads = map[int]bool{fail: true}
				st := NewStorage(l)
				var err error
				what := ""
				if c.IsMap {
					var m *atree.OrderedMap
					m, err = atree.NewMapWithRootID(st, c.SID, w.builderFor(c))
					what = fmt.Sprintf("open map c%d", c.Serial)
					if err == nil && li < nLook {
						_, err = m.Get(CompareValue, GetHashInput, ToAtree(w.KeyOf(keys[li])))
						what = fmt.Sprintf("map c%d Get(k%d)", c.Serial, keys[li])
						var knf *atree.KeyNotFoundError
						if errors.As(err, &knf) && l.ReadCount <= fail {
							err = nil
						}
					}
				} else {
					var a *atree.Array
					a, err = atree.NewArrayWithRootID(st, c.SID)
					what = fmt.Sprintf("open array c%d", c.Serial)
					if err == nil && li < nLook {
						_, err = a.Get(uint64(li))
						what = fmt.Sprintf("array c%d Get(%d)", c.Serial, li)
					}
				}
				if l.ReadCount <= fail {
					if err != nil {
						return violf("%s on a fresh storage failed without any injected fault: %v", what, err)
					}
					break
				}
				if err == nil {
					return violf("%s succeeded although ledger read #%d failed", what, fail)
				}
				_, _, external := isCategory(err)
				if !external || !IsInjected(err) {
					return violf("%s with ledger read #%d failing returned %T %q, want an external error", what, fail, err, err)
				}
			}
		}
	}
	return nil
}

func init() {
	RegisterCheck(&CheckDef{ID: "C18", Level: "model_checking", Run: func(r *Run) {
		r.Rule = "explicit-state BFS over array / map / collision / nested spaces and trajectory neighbourhoods with every invalid request class as alphabet operations (index n, n+1, 2^32, 2^64-1 for Get/Set/Insert/Remove; absent keys at every digest position; inserts over the collision limit; through nested handles): each must return the documented error type and category and leave the canonical state text (content, structure, write-set layers, leaked slabs) unchanged; in every state also: undefined/absent identifiers for open/store/remove, and a failure injected into the i-th call of comparator / hash-input provider / ledger read for every i of every lookup must surface as an external error"
		r.Assumptions = []string{
			"'no trace' is decided on the canonical state text, which covers content, slab structure, which layer holds each slab, and slabs not reachable from a root",
			"callback-failure injection is applied to lookups (Get/Has/open), as the property states",
		}
		or := []string{"sem", "oob", "notrace", "badids", "inject", "ranges", "reopen"}
		L, K := 4, 3
		if r.Thorough() {
			L, K = 5, 4
		}
		specs := []Spec{
			{Name: "rej-arr-T256", Kind: "arr-small", T: 256, L: L, Classes: []string{"limA+", "t", "limA"}, Oracles: or},
			{Name: "rej-arr-nested-T256", Kind: "arr-small", T: 256, L: 3, Classes: []string{"huge", "t", "A:t"}, Oracles: or},
			{Name: "rej-map-T256", Kind: "map-small", T: 256, Keys: K, Classes: []string{"t", "limM", "limM+"}, Oracles: or},
			{Name: "rej-map-keys-T256", Kind: "map-small", T: 256, Keys: 2, Extra: map[string]int{"kLim": 1}, Classes: []string{"t", "limM+", "A:t"}, Oracles: or},
		}
		r.ExploreSpecs(specs)
		as := DigestAssignments(3)
		var cs []Spec
		for ai, a := range as {
			if !r.Thorough() && ai%3 != 0 {
				continue
			}
			for _, lim := range []int{0, 1} {
				cs = append(cs, Spec{Name: fmt.Sprintf("rej-coll-a%d-lim%d", ai, lim), Kind: "coll", T: 256, Keys: 3, Classes: []string{"t", "s60", "limM+"},
					Oracles: []string{"sem", "notrace", "inject", "reopen"}, Digests: a, Limit: lim, Extra: map[string]int{"limit": 1}})
			}
		}
		r.ExploreSpecs(cs)
		var ts []Spec
		step := 6
		if r.Thorough() {
			step = 2
		}
		tor := []string{"sem", "oob", "notrace", "inject", "badids", "ranges"}
		for _, sc := range []string{"arr-append-lim", "arr-mixed"} {
			ts = append(ts, TrajSpecs(r.ID, sc, 70, 1, 71, step, 1, 256, []string{"limA+"}, tor)...)
		}
		for _, sc := range []string{"map-grow-lim"} {
			ts = append(ts, TrajSpecs(r.ID, sc, 64, 1, 65, step, 1, 256, []string{"limM+"}, tor)...)
		}
		r.ExploreSpecs(ts)
		// through nested handles
		ns := []Spec{
			{Name: "rej-nested-arr", Kind: "nested", T: 256, Keys: 2, Classes: []string{"t", "h", "A", "M"}, Oracles: []string{"sem", "struct", "oob", "notrace", "ranges"},
				Extra: map[string]int{"rootmap": 0, "lr": 2, "lc": 2, "maxc": 3, "depth": 2, "nosettype": 1, "rej": 1}},
			{Name: "rej-nested-map", Kind: "nested", T: 256, Keys: 2, Classes: []string{"t", "h", "A", "M"}, Oracles: []string{"sem", "struct", "oob", "notrace"},
				Extra: map[string]int{"rootmap": 1, "lr": 2, "lc": 2, "maxc": 3, "depth": 2, "nosettype": 1, "rej": 1}},
			// rejected requests that carry a container as their value (a detached child offered at an invalid
			// position): histories continue after the rejection, through the refused value's handle as well
			{Name: "rej-detach-arr", Kind: "nested", T: 256, Keys: 2, Classes: []string{"t", "h", "A"}, Oracles: []string{"sem", "struct", "oob", "notrace"},
				Extra: map[string]int{"rootmap": 0, "lr": 2, "lc": 2, "maxc": 3, "depth": 2, "nosettype": 1, "rej": 1, "detach": 1}},
		}
		r.ExploreSpecs(ns)
	}})
}
