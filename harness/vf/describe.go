package vf

import (
	"crypto/sha256"
	"encoding/hex"
	"fmt"
	"sort"
	"strings"

	"github.com/onflow/atree"
	tu "github.com/onflow/atree/test_utils"
)

// SlabRec is one slab found by the independent traversal.
type SlabRec struct {
	ID     atree.SlabID
	Info   atree.VerifSlabInfo
	Slab   atree.Slab
	Layer  string       // "D" write set, "C" cache, "L" ledger only
	Parent atree.SlabID // referencing slab (undefined for roots)
	Root   int          // serial of the live root container this slab was reached from
}

// Walk is the result of the independent traversal from all live roots.
type Walk struct {
	Recs     []SlabRec
	ByID     map[atree.SlabID]*SlabRec
	RefCount map[atree.SlabID]int
	Broken   []string // references that do not resolve
	Inlined  map[atree.ValueID]atree.Slab // inlined child slabs by value id
	Text     string   // canonical structure text (slab IDs renamed by first visit)
	rename   map[atree.SlabID]int
}

// lookupSlab finds the current version of a slab without changing the storage's layers.
func (w *World) lookupSlab(id atree.SlabID) (atree.Slab, string, error) {
	cache, deltas := atree.VerifStorageLayers(w.St)
	if s, ok := deltas[id]; ok {
		if s == nil {
			return nil, "D", nil
		}
		return s, "D", nil
	}
	if s, ok := cache[id]; ok {
		if s == nil {
			return nil, "C", nil
		}
		return s, "C", nil
	}
	data, ok := w.Ledger.Regs[id]
	if !ok {
		return nil, "", nil
	}
	s, err := atree.DecodeSlab(id, data, decMode, DecodeStorable, DecodeTypeInfo)
	if err != nil {
		return nil, "L", fmt.Errorf("register %s does not decode: %w", id, err)
	}
	return s, "L", nil
}

type walker struct {
	w   *World
	res *Walk
	sb  strings.Builder

	seed     uint64            // seed of the map tree being rendered
	haveSeed bool
	univ     []MV              // keys operations may use on the map being rendered
	table    bool              // the map being rendered uses the caller-supplied digest table
	dnames   map[uint64]map[uint64]string // per seed: level-0 digest -> universe key name(s)
}

// digest renders a level-0 digest canonically: as the universe key(s) hashing to it under the
// current map's seed (raw value if none does).  Together with the per-map order line this makes
// the state key independent of the seed's numeric value but not of anything a future operation
// can observe (the relative order of all universe keys under this seed).
func (k *walker) digest(d uint64) string {
	if !k.haveSeed {
		return fmt.Sprintf("%x", d)
	}
	m := k.seedNames(k.seed)
	if n, ok := m[d]; ok {
		return n
	}
	return fmt.Sprintf("%x", d)
}

func (k *walker) seedNames(seed uint64) map[uint64]string {
	if k.dnames == nil {
		k.dnames = map[uint64]map[uint64]string{}
	}
	if k.table {
		seed = ^seed // separate cache entry for table-digest maps
	}
	if m, ok := k.dnames[seed]; ok {
		return m
	}
	m := map[uint64]string{}
	for _, key := range k.univ {
		d, ok := k.w.level0Digest(key, seed, k.table)
		if !ok {
			continue
		}
		if m[d] != "" {
			m[d] += "+"
		}
		m[d] += keyText(key)
	}
	k.dnames[seed] = m
	return m
}

// orderLine renders the order of all universe keys under seed.
func (k *walker) orderLine(seed uint64) string {
	type kd struct {
		d uint64
		n string
	}
	var ks []kd
	for _, key := range k.univ {
		if d, ok := k.w.level0Digest(key, seed, k.table); ok {
			ks = append(ks, kd{d, keyText(key)})
		}
	}
	sort.SliceStable(ks, func(a, b int) bool { return ks[a].d < ks[b].d })
	var sb strings.Builder
	for i, x := range ks {
		if i > 0 {
			if ks[i-1].d == x.d {
				sb.WriteString("=")
			} else {
				sb.WriteString("<")
			}
		}
		sb.WriteString(x.n)
	}
	return sb.String()
}

func (k *walker) name(id atree.SlabID) string {
	n, ok := k.res.rename[id]
	if !ok {
		n = len(k.res.rename)
		k.res.rename[id] = n
	}
	a := "A"
	if id.HasTempAddress() {
		a = "T"
	} else if id.Address() == OtherAddr {
		a = "B"
	}
	return fmt.Sprintf("#%s%d", a, n)
}

// storable renders one storable, descending into inlined slabs and following references.
func (k *walker) storable(s atree.Storable, parent atree.SlabID, root int) {
	switch s := s.(type) {
	case nil:
		k.sb.WriteString("nil")
	case tu.Uint64Value, tu.Uint8Value, tu.Uint16Value, tu.Uint32Value:
		fmt.Fprintf(&k.sb, "n%d", s.ByteSize())
	case tu.StringValue:
		fmt.Fprintf(&k.sb, "s%d", s.ByteSize())
	case BytesValue:
		fmt.Fprintf(&k.sb, "y%d", s.ByteSize())
	case tu.SomeStorable:
		k.sb.WriteString("S(")
		k.storable(s.Storable, parent, root)
		k.sb.WriteString(")")
	case atree.SlabIDStorable:
		id := atree.SlabID(s)
		k.sb.WriteString("@")
		k.slab(id, parent, root)
	case atree.Slab:
		k.sb.WriteString("I")
		k.res.Inlined[slabIDToValueID(s.SlabID())] = s
		k.slabBody(s, parent, root)
	default:
		fmt.Fprintf(&k.sb, "?%T", s)
	}
}

func (k *walker) slab(id atree.SlabID, parent atree.SlabID, root int) {
	k.sb.WriteString(k.name(id))
	k.res.RefCount[id]++
	if k.res.RefCount[id] > 1 {
		k.sb.WriteString("(again)")
		return
	}
	s, layer, err := k.w.lookupSlab(id)
	if err != nil {
		k.res.Broken = append(k.res.Broken, err.Error())
		k.sb.WriteString("(undecodable)")
		return
	}
	if s == nil {
		k.res.Broken = append(k.res.Broken, fmt.Sprintf("slab %s referenced from %s does not exist (layer %q)", id, parent, layer))
		k.sb.WriteString("(missing)")
		return
	}
	rec := SlabRec{ID: id, Slab: s, Info: atree.VerifDescribeSlab(s), Layer: layer, Parent: parent, Root: root}
	k.res.Recs = append(k.res.Recs, rec)
	k.sb.WriteString(k.w.layerText(layer))
	k.slabBody(s, id, root)
}

func (k *walker) slabBody(s atree.Slab, self atree.SlabID, root int) {
	info := atree.VerifDescribeSlab(s)
	if info.HasExtraData && (info.Kind == "mapData" || info.Kind == "mapMeta") {
		oldSeed, oldHave, oldUniv, oldTable := k.seed, k.haveSeed, k.univ, k.table
		k.seed, k.haveSeed = info.MapSeed, true
		k.univ = k.w.universeOfMap(slabIDToValueID(info.SlabID))
		k.table = k.w.isTableMap(slabIDToValueID(info.SlabID))
		defer func() { k.seed, k.haveSeed, k.univ, k.table = oldSeed, oldHave, oldUniv, oldTable }()
		fmt.Fprintf(&k.sb, "ord(%s)", k.orderLine(info.MapSeed))
	}
	switch info.Kind {
	case "arrayData":
		fmt.Fprintf(&k.sb, "{ad sz%d n%d", info.HeaderSize, info.HeaderCount)
		if info.HasExtraData {
			fmt.Fprintf(&k.sb, " x%s", tiText(info.TypeInfo))
		}
		if info.Next != atree.SlabIDUndefined {
			fmt.Fprintf(&k.sb, " nx%s", k.name(info.Next))
		}
		k.sb.WriteString(" [")
		for i, e := range info.Elements {
			if i > 0 {
				k.sb.WriteString(" ")
			}
			k.storable(e, self, root)
		}
		k.sb.WriteString("]}")
	case "arrayMeta":
		fmt.Fprintf(&k.sb, "{am sz%d n%d", info.HeaderSize, info.HeaderCount)
		if info.HasExtraData {
			fmt.Fprintf(&k.sb, " x%s", tiText(info.TypeInfo))
		}
		k.sb.WriteString(" [")
		for i, ch := range info.Children {
			if i > 0 {
				k.sb.WriteString(" ")
			}
			fmt.Fprintf(&k.sb, "(sz%d n%d)", ch.Size, ch.Count)
			k.slab(ch.SlabID, self, root)
		}
		k.sb.WriteString("]}")
	case "mapData":
		fmt.Fprintf(&k.sb, "{md sz%d fk%s", info.HeaderSize, k.digest(info.FirstKey))
		if info.HasExtraData {
			fmt.Fprintf(&k.sb, " x%s c%d", tiText(info.TypeInfo), info.MapCount)
		}
		if info.AnySize {
			k.sb.WriteString(" any")
		}
		if info.CollisionGroup {
			k.sb.WriteString(" cg")
		}
		if info.Next != atree.SlabIDUndefined {
			fmt.Fprintf(&k.sb, " nx%s", k.name(info.Next))
		}
		k.sb.WriteString(" ")
		k.elems(info.MapElems, info.MapLevel, info.MapListKind, info.MapElemsSize, self, root)
		k.sb.WriteString("}")
	case "mapMeta":
		fmt.Fprintf(&k.sb, "{mm sz%d fk%s", info.HeaderSize, k.digest(info.FirstKey))
		if info.HasExtraData {
			fmt.Fprintf(&k.sb, " x%s c%d", tiText(info.TypeInfo), info.MapCount)
		}
		k.sb.WriteString(" [")
		for i, ch := range info.Children {
			if i > 0 {
				k.sb.WriteString(" ")
			}
			fmt.Fprintf(&k.sb, "(sz%d fk%s)", ch.Size, k.digest(ch.FirstKey))
			k.slab(ch.SlabID, self, root)
		}
		k.sb.WriteString("]}")
	case "storable":
		k.sb.WriteString("{st ")
		k.storable(info.Elements[0], self, root)
		k.sb.WriteString("}")
	default:
		fmt.Fprintf(&k.sb, "{?%s}", info.Kind)
	}
}

func (k *walker) elems(es []atree.VerifElem, level uint, list bool, size uint32, self atree.SlabID, root int) {
	fmt.Fprintf(&k.sb, "<L%d", level)
	if list {
		k.sb.WriteString("list")
	}
	fmt.Fprintf(&k.sb, " sz%d", size)
	for _, e := range es {
		k.sb.WriteString(" ")
		if e.HasHKey {
			if level == 0 {
				fmt.Fprintf(&k.sb, "%s:", k.digest(e.Digest))
			} else {
				fmt.Fprintf(&k.sb, "%x:", e.Digest)
			}
		}
		switch e.Kind {
		case "single":
			fmt.Fprintf(&k.sb, "(sz%d ", e.Size)
			k.keyStorable(e.Key, self, root)
			k.sb.WriteString("=")
			k.storable(e.Value, self, root)
			k.sb.WriteString(")")
		case "inlineGroup":
			fmt.Fprintf(&k.sb, "G(sz%d ", e.Size)
			k.elems(e.Elems, e.Level, e.ListKind, 0, self, root)
			k.sb.WriteString(")")
		case "externalGroup":
			fmt.Fprintf(&k.sb, "X(sz%d ", e.Size)
			k.slab(e.GroupID, self, root)
			k.sb.WriteString(")")
		}
	}
	k.sb.WriteString(">")
}

// keyStorable renders a key with its identity (keys are hashed, so content matters).
func (k *walker) keyStorable(s atree.Storable, self atree.SlabID, root int) {
	switch s := s.(type) {
	case tu.Uint64Value:
		fmt.Fprintf(&k.sb, "k%d", uint64(s))
	case tu.StringValue:
		str := s.String()
		if i := strings.IndexByte(str, '~'); i >= 0 {
			str = str[:i]
		}
		fmt.Fprintf(&k.sb, "k%q/%d", str, s.ByteSize())
	case BytesValue:
		fmt.Fprintf(&k.sb, "ky%x", string(s))
	default:
		k.storable(s, self, root)
	}
}

// DoWalk traverses all slabs reachable from the live roots, independently of the library's own
// traversal code (it only uses the per-slab projection hook and the register decoder).
func (w *World) DoWalk() *Walk {
	res := &Walk{Inlined: map[atree.ValueID]atree.Slab{}, ByID: map[atree.SlabID]*SlabRec{}, RefCount: map[atree.SlabID]int{}, rename: map[atree.SlabID]int{}}
	k := &walker{w: w, res: res}
	_, canon := w.canonOrder()
	for _, c := range w.LiveRoots() {
		fmt.Fprintf(&k.sb, "root c%d: ", canon[c])
		// The handle's own root slab object is what the container operates on.
		var rootSlab atree.Slab
		if c.IsMap && c.Map != nil {
			rootSlab, _ = atree.VerifMapState(c.Map)
		} else if !c.IsMap && c.Arr != nil {
			rootSlab, _, _ = atree.VerifArrayState(c.Arr)
		}
		if rootSlab != nil {
			id := c.SID
			k.sb.WriteString(k.name(id))
			res.RefCount[id]++
			st, layer, _ := w.lookupSlab(id)
			if st != rootSlab {
				// The handle holds a slab object the storage does not (yet/any more) know under
				// this ID; record which, it is part of the state.
				if st == nil {
					layer += "h!"
				} else {
					layer += "h"
				}
			}
			res.Recs = append(res.Recs, SlabRec{ID: id, Slab: rootSlab, Info: atree.VerifDescribeSlab(rootSlab), Layer: layer, Root: c.Serial})
			k.sb.WriteString(w.layerText(layer))
			k.slabBody(rootSlab, id, c.Serial)
		} else {
			k.slab(c.SID, atree.SlabIDUndefined, c.Serial)
		}
		k.sb.WriteString("\n")
	}
	for i := range res.Recs {
		res.ByID[res.Recs[i].ID] = &res.Recs[i]
	}
	res.Text = k.sb.String()
	return res
}

// AllStorageIDs returns every slab ID the storage currently holds a live (non-deleted) version of:
// write set entries that are not deletions, plus ledger registers not deleted in the write set.
func (w *World) AllStorageIDs() []atree.SlabID {
	_, deltas := atree.VerifStorageLayers(w.St)
	set := map[atree.SlabID]bool{}
	for id := range w.Ledger.Regs {
		set[id] = true
	}
	for id, s := range deltas {
		if s == nil {
			delete(set, id)
		} else {
			set[id] = true
		}
	}
	ids := make([]atree.SlabID, 0, len(set))
	for id := range set {
		ids = append(ids, id)
	}
	SortIDs(ids)
	return ids
}

// canonOrder lists live containers in canonical order (depth-first from the live roots in
// registry order) and names them by visit number, so that serial numbers of dead containers do
// not leak into the state key.
func (w *World) canonOrder() ([]*Cont, map[*Cont]int) {
	var order []*Cont
	names := map[*Cont]int{}
	var visit func(c *Cont)
	visit = func(c *Cont) {
		names[c] = len(order)
		order = append(order, c)
		vals := c.Elems
		if c.IsMap {
			vals = c.Vals
		}
		for _, v := range vals {
			if u, _ := Unwrap(v); u != nil {
				if ch, ok := u.(*Cont); ok {
					visit(ch)
				}
			}
		}
	}
	for _, c := range w.LiveRoots() {
		visit(c)
	}
	return order, names
}

func classOfCanon(v MV, names map[*Cont]int) string {
	switch v := v.(type) {
	case Some:
		return "S(" + classOfCanon(v.In, names) + ")"
	case *Cont:
		return fmt.Sprintf("c%d", names[v])
	}
	return ClassOf(v)
}

// modelText renders the abstract model state (classes, not contents) and the hidden handle state.
func (w *World) modelText(wk *Walk) string {
	var sb strings.Builder
	order, names := w.canonOrder()
	vidOwner := map[atree.ValueID]int{}
	for _, c := range order {
		vidOwner[c.VID] = names[c]
	}
	for _, c := range order {
		fmt.Fprintf(&sb, "c%d ", names[c])
		if c.Parent != nil {
			fmt.Fprintf(&sb, "in c%d w%d ", names[c.Parent], c.Wrap)
		} else {
			sb.WriteString("root ")
		}
		fmt.Fprintf(&sb, "t%d/%v ", c.TypeID, c.Comp)
		if c.IsMap {
			idx := make([]int, len(c.Keys))
			for i := range idx {
				idx[i] = i
			}
			sort.Slice(idx, func(a, b int) bool { return keyText(c.Keys[idx[a]]) < keyText(c.Keys[idx[b]]) })
			sb.WriteString("{")
			for _, i := range idx {
				fmt.Fprintf(&sb, "%s:%s ", keyText(c.Keys[i]), classOfCanon(c.Vals[i], names))
			}
			sb.WriteString("}")
			if c.Map != nil && !w.traceMode {
				root, hp := atree.VerifMapState(c.Map)
				fmt.Fprintf(&sb, " h(%s) pu=%v", w.provOf(c.Map), hp)
				sb.WriteString(w.handleRootText(c, root, wk))
			}
			if c.AltMap != nil && !w.traceMode {
				root, hp := atree.VerifMapState(c.AltMap)
				fmt.Fprintf(&sb, " alt(%s) pu=%v%s", w.provOf(c.AltMap), hp, w.handleRootText(c, root, wk))
			}
		} else {
			sb.WriteString("[")
			for _, e := range c.Elems {
				sb.WriteString(classOfCanon(e, names) + " ")
			}
			sb.WriteString("]")
			if c.Arr != nil && !w.traceMode {
				root, hp, tracked := atree.VerifArrayState(c.Arr)
				fmt.Fprintf(&sb, " h(%s) pu=%v tr[", w.provOf(c.Arr), hp)
				var ts []string
				for _, t := range tracked {
					o, ok := vidOwner[t.ValueID]
					if !ok {
						o = -1
					}
					ts = append(ts, fmt.Sprintf("%d:c%d", t.Index, o))
				}
				sort.Strings(ts)
				sb.WriteString(strings.Join(ts, " "))
				sb.WriteString("]")
				sb.WriteString(w.handleRootText(c, root, wk))
			}
			if c.AltArr != nil && !w.traceMode {
				root, hp, _ := atree.VerifArrayState(c.AltArr)
				fmt.Fprintf(&sb, " alt(%s) pu=%v%s", w.provOf(c.AltArr), hp, w.handleRootText(c, root, wk))
			}
		}
		sb.WriteString("\n")
	}
	return sb.String()
}

// handleRootText records whether the slab object a child handle operates on is the very object
// its parent (or the storage) holds for it; a divergence is hidden state that changes futures.
func (w *World) handleRootText(c *Cont, root atree.Slab, wk *Walk) string {
	if c.Parent == nil {
		return "" // roots are rendered through their handle by the walk itself
	}
	if in, ok := wk.Inlined[c.VID]; ok {
		if in == root {
			return " =inl"
		}
		return " !inl:" + renderSlab(atree.VerifDescribeSlab(root))
	}
	if r := wk.ByID[c.SID]; r != nil {
		if r.Slab == root {
			return " =ext"
		}
		return " !ext:" + renderSlab(atree.VerifDescribeSlab(root))
	}
	return " ?"
}

func keyText(k MV) string {
	switch k := k.(type) {
	case Scalar:
		return fmt.Sprintf("k%d", k.N)
	case Str:
		s := k.S
		if i := strings.IndexByte(s, '~'); i >= 0 {
			s = s[:i]
		}
		// drop the serial between '#' and '.'
		return fmt.Sprintf("k%q/%d", s, StrSize(k.S))
	case Bytes:
		return fmt.Sprintf("ky%x", k.B)
	}
	return MVString(k)
}

// StateText is the canonical text of the whole state; StateKey is its hash.
func (w *World) StateText() (string, *Walk) {
	wk := w.DoWalk()
	var sb strings.Builder
	sb.WriteString(w.modelText(wk))
	sb.WriteString(wk.Text)
	// slabs the storage holds that the traversal did not reach, and pending deletions
	cache, deltas := atree.VerifStorageLayers(w.St)
	var extra []string
	for _, id := range w.AllStorageIDs() {
		if _, ok := wk.rename[id]; !ok {
			_, layer, _ := w.lookupSlab(id)
			extra = append(extra, "unreached "+layer)
		}
	}
	nDel := 0
	for _, s := range deltas {
		if s == nil {
			nDel++
		}
	}
	nCacheNil := 0
	for _, s := range cache {
		if s == nil {
			nCacheNil++
		}
	}
	sort.Strings(extra)
	if len(extra) > 3 {
		extra = extra[:3]
	}
	if w.KeyStorage {
		// drivers that explore commits/crashes distinguish storage-level states too
		// pending deletions of never-committed slabs only make the next commit issue no-op
		// removals; their number is capped so that the space stays finite
		if nDel > 2 {
			nDel = 2
		}
		if nCacheNil > 2 {
			nCacheNil = 2
		}
		fmt.Fprintf(&sb, "extra %v pendingDel %d cachedAbsent %d ledger %d committed %s\n", extra, nDel, nCacheNil, len(w.Ledger.Regs), w.committedText())
	} else {
		// container drivers: pending deletions of never-committed slabs do not influence any
		// container operation; counting them would make every history a new state
		fmt.Fprintf(&sb, "extra %v\n", extra)
	}
	if w.Digests != nil {
		fmt.Fprintf(&sb, "limit %d\n", w.Digests.Limit)
	}
	return sb.String(), wk
}

func HashText(s string) string {
	h := sha256.Sum256([]byte(s))
	return hex.EncodeToString(h[:12])
}

func slabIDToValueID(id atree.SlabID) atree.ValueID {
	var v atree.ValueID
	var b [16]byte
	id.ToRawBytes(b[:])
	copy(v[:], b[:])
	return v
}

// committedText abstracts the model at the last commit (crash recovery target) for the state key.
func (w *World) committedText() string {
	if w.CommittedConts == nil {
		return "never"
	}
	w2 := &World{Conts: w.CommittedConts}
	order, names := w2.canonOrder()
	var sb strings.Builder
	for _, c := range order {
		fmt.Fprintf(&sb, "c%d", names[c])
		if c.IsMap {
			sb.WriteString("{")
			for i := range c.Keys {
				fmt.Fprintf(&sb, "%s:%s ", keyText(c.Keys[i]), classOfCanon(c.Vals[i], names))
			}
			sb.WriteString("}")
		} else {
			sb.WriteString("[")
			for _, e := range c.Elems {
				sb.WriteString(classOfCanon(e, names) + " ")
			}
			sb.WriteString("]")
		}
	}
	return sb.String()
}

// layerText renders the storage layer of a slab.  In trace mode (used to decide whether a
// rejected request left a trace) the read cache is not distinguished from the ledger: the
// property speaks of the container, its ancestors and the pending write set.
func (w *World) layerText(layer string) string {
	if w.traceMode {
		if len(layer) > 0 && layer[0] == 'D' {
			return "D"
		}
		return "-"
	}
	return layer
}

// TraceText is StateText without read-cache and handle information.
func (w *World) TraceText() string {
	w.traceMode = true
	defer func() { w.traceMode = false }()
	t, _ := w.StateText()
	return t
}

func (w *World) isTableMap(vid atree.ValueID) bool {
	for _, x := range w.Conts {
		if x.VID == vid && !x.Dead {
			return x.Table
		}
	}
	return false
}
