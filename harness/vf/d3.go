package vf

import (
	"bytes"
	"fmt"

	"github.com/onflow/atree"
)

// mixed: one persistent root array (c0), one persistent root map (c1) and, optionally, one
// container at the temporary (zero) address (c2), with nested children, plus commit events.
// Used by C03 (crash oracle at every state) and C08 (twin oracle).

type mixedSpace struct {
	baseSpace
}

func init() {
	RegisterSpace("mixed", func(s Spec) Space {
		sp := &mixedSpace{baseSpace{spec: s}}
		sp.seed = []Op{{K: "newarr"}, {K: "newmap"}}
		if s.Extra["temp"] == 1 {
			sp.seed = append(sp.seed, Op{K: "newarr", N: 1})
		}
		return sp
	})
}

func (m *mixedSpace) Build(path []Op) (*World, error) {
	w := m.newWorld()
	w.KeyStorage = true
	w.TrackCommits = m.spec.Has("crash")
	w.TwinBase = func() (*World, error) { return m.newWorld(), nil }
	for _, op := range m.seed {
		if err := w.Apply(op); err != nil {
			return nil, fmt.Errorf("seed op %s: %w", op, err)
		}
	}
	for _, op := range path {
		if err := w.Apply(op); err != nil {
			return nil, err
		}
	}
	return w, nil
}

func (m *mixedSpace) Ops(w *World) []Op {
	var ops []Op
	L := m.spec.L
	for _, c := range w.Conts {
		if c.Dead || c.Parent != nil && depthOf(c) > 1 {
			continue
		}
		limit := L
		classes := m.spec.Classes
		if c.Parent != nil {
			limit = 2
			classes = []string{"t", "h"}
		}
		n := c.Count()
		if c.IsMap {
			for k := 0; k < m.spec.Keys; k++ {
				present := false
				for _, mk := range c.Keys {
					if mvEqualKey(mk, w.KeyOf(k)) {
						present = true
					}
				}
				if !present && n >= limit {
					continue
				}
				for _, cl := range classes {
					if c.SID.HasTempAddress() && isContClass(trimWrap(cl)) {
						continue
					}
					ops = append(ops, Op{K: "mset", C: c.Serial, Key: k, V: cl})
				}
				if present {
					ops = append(ops, Op{K: "mremove", C: c.Serial, Key: k})
				}
			}
			// fields of composite (compact-encoded) children: string keys f0, f1, …
			for _, mk := range c.Keys {
				if sk, ok := mk.(Str); ok && len(sk.S) >= 2 && sk.S[0] == 'f' {
					var fn int
					fmt.Sscanf(sk.S, "f%d", &fn)
					ops = append(ops, Op{K: "mremove", C: c.Serial, Key: 200 + fn}, Op{K: "mset", C: c.Serial, Key: 200 + fn, V: "t"}, Op{K: "mget", C: c.Serial, Key: 200 + fn})
				}
			}
		} else {
			if n < limit {
				for _, cl := range classes {
					ops = append(ops, Op{K: "append", C: c.Serial, V: cl})
				}
				if n > 0 {
					ops = append(ops, Op{K: "insert", C: c.Serial, I: 0, V: classes[0]})
				}
			}
			for i := 0; i < n; i++ {
				ops = append(ops, Op{K: "set", C: c.Serial, I: uint64(i), V: classes[0]})
				ops = append(ops, Op{K: "remove", C: c.Serial, I: uint64(i)})
			}
			if c.Parent != nil && n > 0 {
				// a nested child overwrites an element with a value too large to inline (the child allocates a slab)
				ops = append(ops, Op{K: "set", C: c.Serial, I: 0, V: "limA+"})
			}
		}
		if c.Parent != nil && c.TypeID == 7 {
			ops = append(ops, Op{K: "settype", C: c.Serial, N: 107})
		}
		if c.Parent == nil && c.TypeID == 42 && !c.SID.HasTempAddress() {
			// a root container changes its type (the root slab — data or index slab — carries it)
			ops = append(ops, Op{K: "settype", C: c.Serial, N: 43})
		}
		if n > 0 && c.Parent == nil {
			ops = append(ops, Op{K: "pop", C: c.Serial})
		}
	}
	for _, ev := range m.spec.Oracles {
		switch ev {
		case "ev:commit":
			ops = append(ops, Op{K: "commit", N: 1}, Op{K: "commit", N: 3}, Op{K: "ncommit", N: 2})
		case "ev:commit1":
			ops = append(ops, Op{K: "commit", N: 1})
		case "ev:ncommit":
			ops = append(ops, Op{K: "ncommit", N: 2})
		case "ev:cdrop":
			ops = append(ops, Op{K: "cdrop"})
		case "ev:creopen":
			ops = append(ops, Op{K: "creopen"})
		}
	}
	return ops
}

// collEventSpecs: collision universes (every step-th order-isomorphism class of digest assignments of 3 keys:
// inline groups, external groups, groups on deeper levels, digest-less lists) whose alphabet contains the
// given events, depth-bounded; collision groups are thereby operated on after being decoded from registers.
func collEventSpecs(r *Run, oracles []string, step, depth int) []Spec {
	var cs []Spec
	for ai, a := range DigestAssignments(3) {
		if ai%step != 0 {
			continue
		}
		cs = append(cs, Spec{Name: fmt.Sprintf("coll-events-T256-a%d", ai), Kind: "coll", T: 256, Keys: 3, Classes: []string{"t", "s60"},
			Oracles: oracles, Digests: a, Limit: 255, Depth: depth, Extra: map[string]int{"limit": 1}})
	}
	return cs
}

func trimWrap(cl string) string {
	for len(cl) > 2 && cl[:2] == "s:" {
		cl = cl[2:]
	}
	return cl
}

// OCrash: abandoning the in-memory storage now must leave exactly the last committed state.
func OCrash(w *World) error {
	if len(w.Ledger.OutsideCommit) > 0 {
		c := w.Ledger.OutsideCommit[0]
		return violf("ledger %s of %s outside a commit", c.Kind, c.ID)
	}
	for id := range w.Ledger.Regs {
		if id.HasTempAddress() {
			return violf("register %s is owned by the temporary (zero) address", id)
		}
	}
	if w.CommittedLedger == nil {
		if len(w.Ledger.Regs) != 0 {
			return violf("ledger holds %d registers although nothing was ever committed", len(w.Ledger.Regs))
		}
		return nil
	}
	if ok, why := EqualRegs(w.CommittedLedger, w.Ledger); !ok {
		return violf("ledger changed since the last commit: %s", why)
	}
	// Recover: brand-new storage over a copy of the ledger, model = model at commit time.
	rec := &World{T: w.T, Ledger: w.Ledger.Snapshot(), Addr: w.Addr, Digests: w.Digests, KeyOf: w.KeyOf, KeyUniverse: w.KeyUniverse}
	rec.St = NewStorage(rec.Ledger)
	rec.Conts = cloneConts(w.CommittedConts)
	for _, c := range rec.Conts {
		if c.SID.HasTempAddress() && c.Parent == nil {
			// never written, by design: not recoverable and not expected to be
			rec.markDead(c)
		}
	}
	if err := rec.DeepCheck(); err != nil {
		return wrapViol(err, "recovery from the ledger after a crash differs from the state at the last commit: ")
	}
	if err := OStructInRepo(rec); err != nil {
		return wrapViol(err, "recovered from ledger: ")
	}
	if err := OReach(rec, "recovered from ledger"); err != nil {
		return err
	}
	return nil
}

// OTwin: the same history without any commit / cache-drop / reopen event must give the same
// per-operation results, the same content, and (without compact maps) byte-identical registers.
func OTwin(w *World) error {
	seedLen := 0
	isEvent := func(o Op) bool {
		switch o.K {
		case "commit", "ncommit", "cdrop", "creopen", "dropcache", "reopen":
			return true
		}
		return false
	}
	tw, err := w.TwinBase()
	if err != nil {
		return fmt.Errorf("harness: twin base: %w", err)
	}
	var rets, trets []string
	for i, o := range w.History {
		if isEvent(o) {
			continue
		}
		if err := tw.Apply(o); err != nil {
			return fmt.Errorf("harness: twin run fails at %s: %w", o, err)
		}
		if i >= seedLen {
			rets = append(rets, w.Rets[i])
			trets = append(trets, tw.Rets[len(tw.Rets)-1])
		}
	}
	for i := range rets {
		if rets[i] != trets[i] {
			return violf("operation %d returned %q, the event-free twin returned %q", i, rets[i], trets[i])
		}
	}
	if err := w.DeepCheck(); err != nil {
		return wrapViol(err, "content differs from model: ")
	}
	// structure: canonical text of both final states must agree once both are committed and reopened
	if err := w.Commit(1, false); err != nil {
		return err
	}
	if err := tw.Commit(1, false); err != nil {
		return fmt.Errorf("harness: twin commit: %w", err)
	}
	compact := w.EverCompact || tw.EverCompact
	for _, b := range w.Ledger.Regs {
		if hasCompactMap(b) {
			compact = true
		}
	}
	for _, b := range tw.Ledger.Regs {
		if hasCompactMap(b) {
			compact = true
		}
	}
	if !compact {
		if ok, why := EqualRegs(tw.Ledger, w.Ledger); !ok {
			return violf("final registers differ from the event-free twin: %s", why)
		}
	} else {
		w.Reopen()
		if err := w.DeepCheck(); err != nil {
			return wrapViol(err, "after final commit and reopen: ")
		}
	}
	w.Reopen()
	if err := OStructInRepo(w); err != nil {
		return wrapViol(err, "after final commit and reopen: ")
	}
	return nil
}

var _ = bytes.Equal
var _ = atree.SlabIDUndefined

func init() {
	RegisterCheck(&CheckDef{ID: "C03", Level: "model_checking", Run: func(r *Run) {
		r.Rule = "explicit-state BFS over histories on a persistent array + map (+ nested children, + one container at the temporary address) with the three commit kinds (FastCommit(1), FastCommit(3), NondeterministicFastCommit(2)) as alphabet operations, i.e. every placement of commits; every visited state is a crash point: no ledger write outside a commit, ledger byte-identical to the snapshot at the last commit, and a brand-new storage over a copy of the ledger must reconstruct every container with the model content at commit time (+ verifiers + reachability); no register under the zero address"
		r.Assumptions = []string{
			"crash points lie between operations and immediately before/after a commit (torn commits are C14's subject)",
			"slab-index allocation (GenerateSlabID) is not a register write in the property's sense; the index counter is part of the ledger snapshot",
			"the state key includes which storage layer holds each slab and the abstract model at the last commit; pending no-op deletions are capped at 2 in the key",
		}
		or := []string{"crash", "ev:commit"}
		var specs []Spec
		if !r.Thorough() {
			specs = []Spec{
				{Name: "mixed-T256-L3", Kind: "mixed", T: 256, L: 3, Keys: 2, Classes: []string{"t", "limA+", "A"}, Oracles: or, Depth: 5, Extra: map[string]int{"temp": 1}},
				{Name: "mixed-split-T256-L5", Kind: "mixed", T: 256, L: 5, Keys: 4, Classes: []string{"limM", "t"}, Oracles: []string{"crash", "ev:commit1"}, Depth: 6},
			}
			specs = append(specs, TrajSpecs(r.ID, "arr-mixed", 60, 20, 61, 20, 2, 256, []string{"t"}, []string{"crash", "ev:commit1"})...)
			specs = append(specs, TrajSpecs(r.ID, "map-grow-lim", 90, 51, 92, 40, 2, 256, []string{"t"}, []string{"crash", "ev:commit1"})...)
			specs = append(specs, TrajSpecs(r.ID, "map-grow-desc", 90, 61, 92, 30, 2, 256, []string{"limM"}, []string{"crash", "ev:commit1"})...)
			specs = append(specs, TrajSpecs(r.ID, "arr-append-lim", 70, 71, 72, 15, 2, 256, []string{"limA"}, []string{"crash", "ev:commit1"})...)
			specs = append(specs, deepColdSpecs(r, []string{"crash", "ev:commit1"})...)
			// collision groups inside maps whose root is an index slab (a removal can make a leaf GROW and split): every
			// transition also with a commit placed before the operation, then commit and recovery
			specs = append(specs, collMetaSpecs(r, []string{"crash", "coldop"})...)
			for _, sp := range coldClosureSpecs(r) {
				if sp.Kind != "arr-small" { // (the two array closures are the costly ones; C08, a light check, runs all five)
					specs = append(specs, sp)
				}
			}
			// small trees, cold (every slab clean): shrinking overwrites and removals that borrow from / merge with a clean sibling
			for _, sc := range []string{"map-grow-lim", "map-grow-desc", "arr-append-lim", "arr-mixed"} {
				specs = append(specs, TrajSpecs(r.ID, sc, 20, 4, 17, 3, 2, 256, []string{"t", "limM"}, []string{"crash", "ev:commit1"})...)
			}
			specs = append(specs, collEventSpecs(r, []string{"crash", "ev:commit1"}, 5, 4)...)
			specs = append(specs,
				// detached containers, re-attachment, and REJECTED requests that carry a container (a refused value must
				// keep its registers: the next commit may not delete them)
				Spec{Name: "crash-rej-detach-T256", Kind: "nested", T: 256, Keys: 2, Classes: []string{"t", "h", "A"}, Oracles: []string{"crash", "events"}, Depth: 5,
					Extra: map[string]int{"rootmap": 0, "lr": 2, "lc": 2, "maxc": 2, "depth": 2, "nosettype": 1, "rej": 1, "detach": 1, "nocdrop": 1}},
				Spec{Name: "crash-arr-kinds-T256", Kind: "arr-small", T: 256, L: 3, Classes: []string{"t", "limA+", "s:A:t", "A:limA-,limA-"}, Oracles: []string{"crash", "ev:commit1"}, Depth: 4},
				Spec{Name: "crash-map-keys-T256", Kind: "map-small", T: 256, Keys: 2, Extra: map[string]int{"kLim": 1}, Classes: []string{"t", "limM+", "A:t"}, Oracles: []string{"crash", "ev:commit1"}, Depth: 4},
			)
		} else {
			specs = []Spec{
				{Name: "mixed-T256-L3", Kind: "mixed", T: 256, L: 3, Keys: 2, Classes: []string{"t", "limA+", "A", "s:M:t"}, Oracles: or, Depth: 7, Extra: map[string]int{"temp": 1}},
				{Name: "mixed-split-T256-L6", Kind: "mixed", T: 256, L: 6, Keys: 5, Classes: []string{"limM", "t"}, Oracles: []string{"crash", "ev:commit1"}, Depth: 9},
				{Name: "mixed-T512-L3", Kind: "mixed", T: 512, L: 3, Keys: 2, Classes: []string{"t", "limA+", "A"}, Oracles: or, Depth: 6, Extra: map[string]int{"temp": 1}},
			}
			for _, sc := range []string{"arr-mixed", "arr-append-lim", "arr-drain-mid", "map-grow-lim", "map-grow-desc", "map-drain-front"} {
				specs = append(specs, TrajSpecs(r.ID, sc, 100, 5, 101, 5, 2, 256, []string{"t", "limA"}, []string{"crash", "ev:commit"})...)
				specs = append(specs, TrajSpecs(r.ID, sc, 100, 10, 101, 30, 3, 256, []string{"limA"}, []string{"crash", "ev:commit1"})...)
			}
			specs = append(specs, collEventSpecs(r, []string{"crash", "ev:commit1"}, 1, 6)...)
		}
		r.ExploreSpecs(specs)
		// a write set containing a slab that cannot be encoded (inline value / large value in its own slab): the
		// commit must not report success; after the caller removes the value the next commit recovers normally
		r.RunTaskGroup("commits of a write set with an unencodable value (inline / own slab) x commit kind x workers", "encfail", encFailArgs())
		// registers far beyond the size-limited range (a collision group's own slab has no size limit): one group of
		// 258 keys with 400-byte values (> 64 KiB), committed, reopened on a fresh storage, changed, committed again
		var big []any
		for shape := 0; shape < 3; shape++ {
			big = append(big, collDeepArg{T: 1024, Shape: shape, N: 258, Big: true})
		}
		r.RunTaskGroup("collision group slab beyond 64 KiB: commit, recovery, further commits", "colldeep", big)
	}})
	RegisterCheck(&CheckDef{ID: "C08", Level: "model_checking", Run: func(r *Run) {
		r.Rule = "explicit-state BFS over histories with the events commit, commit+drop-cache and commit+reopen-from-ledger as alphabet operations (every placement of events between operations; the commit is the deterministic one or the order-relaxed one); differential oracle on every visited state: per-operation results equal those of the same history replayed without any event, content equals the model, final registers byte-identical to the event-free twin (content-equal when compact maps occur), structure valid after final reopen"
		r.Assumptions = []string{
			"after a cache drop child handles are re-obtained through their parent; after a reopen all handles are re-obtained by root ID (one live handle per container)",
		}
		or := []string{"twin", "ev:commit1", "ev:ncommit", "ev:cdrop", "ev:creopen"}
		var specs []Spec
		if !r.Thorough() {
			specs = []Spec{
				{Name: "cache-mixed-T256", Kind: "mixed", T: 256, L: 3, Keys: 2, Classes: []string{"t", "limA+", "A"}, Oracles: or, Depth: 5},
				{Name: "cache-split-T256", Kind: "mixed", T: 256, L: 5, Keys: 4, Classes: []string{"limM", "t"}, Oracles: or, Depth: 6},
				{Name: "cache-compact-T256", Kind: "mixed", T: 256, L: 2, Keys: 2, Classes: []string{"Mc:t", "Mc:t,t"}, Oracles: or, Depth: 5},
			}
			specs = append(specs, TrajSpecs(r.ID, "arr-mixed", 60, 20, 61, 20, 1, 256, []string{"t", "limA"}, or)...)
			specs = append(specs, TrajSpecs(r.ID, "arr-mixed", 60, 10, 11, 10, 2, 256, []string{"t", "limA"}, or)...)
			specs = append(specs, TrajSpecs(r.ID, "map-grow-lim", 90, 51, 92, 40, 1, 256, []string{"t", "limM"}, or)...)
			specs = append(specs, TrajSpecs(r.ID, "map-grow-desc", 90, 11, 92, 40, 1, 256, []string{"t", "limM"}, or)...)
			specs = append(specs, TrajSpecs(r.ID, "map-grow-desc", 90, 11, 12, 20, 2, 256, []string{"t", "limM"}, or)...)
			specs = append(specs, deepColdSpecs(r, or)...)
			specs = append(specs, collMetaSpecs(r, []string{"sem", "coldop"})...)
			specs = append(specs, coldClosureSpecs(r)...)
			for _, sc := range []string{"map-grow-lim", "map-grow-desc", "arr-append-lim", "arr-mixed"} {
				specs = append(specs, TrajSpecs(r.ID, sc, 20, 4, 17, 3, 2, 256, []string{"t", "limM"}, or)...)
			}
			specs = append(specs, collEventSpecs(r, or, 2, 5)...)
			specs = append(specs,
				// element kinds the mixed universe does not have: wrapped / standalone children of a root array,
				// keys at and over the key inline limit (externalised keys), nested values under such keys
				Spec{Name: "cache-arr-kinds-T256", Kind: "arr-small", T: 256, L: 4, Classes: []string{"t", "limA+", "s:A:t", "A:limA-,limA-"}, Oracles: or, Depth: 5},
				Spec{Name: "cache-map-keys-T256", Kind: "map-small", T: 256, Keys: 2, Extra: map[string]int{"kLim": 1}, Classes: []string{"t", "limM+", "A:t"}, Oracles: or, Depth: 5},
			)
		} else {
			specs = collEventSpecs(r, or, 1, 6)
			specs = append(specs,
				Spec{Name: "cache-arr-kinds-T256", Kind: "arr-small", T: 256, L: 4, Classes: []string{"t", "limA+", "s:A:t", "A:limA-,limA-", "ss:A"}, Oracles: or, Depth: 7},
				Spec{Name: "cache-map-keys-T256", Kind: "map-small", T: 256, Keys: 2, Extra: map[string]int{"kLim": 1}, Classes: []string{"t", "limM+", "A:t", "s:M:t"}, Oracles: or, Depth: 7},
				Spec{Name: "cache-mixed-T256", Kind: "mixed", T: 256, L: 3, Keys: 2, Classes: []string{"t", "limA+", "A", "s:M:t"}, Oracles: or, Depth: 7},
				Spec{Name: "cache-split-T256", Kind: "mixed", T: 256, L: 6, Keys: 5, Classes: []string{"limM", "t"}, Oracles: or, Depth: 8},
				Spec{Name: "cache-compact-T256", Kind: "mixed", T: 256, L: 3, Keys: 2, Classes: []string{"Mc:t", "Mc:t,t", "t"}, Oracles: or, Depth: 7},
				Spec{Name: "cache-mixed-T1024", Kind: "mixed", T: 1024, L: 3, Keys: 2, Classes: []string{"t", "limA+", "A"}, Oracles: or, Depth: 6},
			)
		}
		r.ExploreSpecs(specs)
		// containers produced by the bulk constructors: sizes cached in memory by the builder must be the ones a reload
		// computes from the registers (a container must not behave differently before and after it is reloaded)
		r.RunTaskGroup("bulk-built arrays and maps (cached sizes vs reload)", "c17", bulkBuiltArgs())
	}})
}

// deepColdSpecs: three-level trees whose every slab is clean (cold start from committed registers), one operation
// deep: a removal / overwrite under a second-level index slab that neither underflows nor splits its leaf, and — maps
// with a colliding pair in every third leaf — the removal of one member of an external collision group, which makes
// its leaf GROW and split.  What such an operation must add to the write set is only visible after a reload.
func deepColdSpecs(r *Run, or []string) []Spec {
	var specs []Spec
	specs = append(specs, TrajSpecs(r.ID, "arr-append-lim", 70, 56, 71, 7, 1, 256, []string{"t", "limA"}, or)...)
	specs = append(specs, TrajSpecs(r.ID, "arr-mixed", 110, 90, 111, 10, 1, 256, []string{"t", "limA"}, or)...)
	cg := TrajSpecs(r.ID, "map-coll-grow", 60, 9, 60, 3, 1, 256, []string{"t", "limM"}, or)
	for i := range cg {
		cg[i].Extra["allkeys"] = 1
	}
	return append(specs, cg...)
}

// coldClosureSpecs: event-free closures (arrays, maps, nested containers operated on through child handles) whose every
// transition is also executed with a commit placed before the operation, followed by commit and recovery.
func coldClosureSpecs(r *Run) []Spec {
	or := []string{"sem", "coldop"}
	return []Spec{
		{Name: "cold-arr-small-T256-L5", Kind: "arr-small", T: 256, L: 5, Classes: []string{"t", "mid", "limA", "limA+"}, Oracles: or},
		{Name: "cold-arr-nested-T256-L4", Kind: "arr-small", T: 256, L: 4, Classes: []string{"t", "limA", "A", "M:t", "s:A:t"}, Oracles: or},
		{Name: "cold-map-small-T256-K4", Kind: "map-small", T: 256, Keys: 4, Classes: []string{"t", "limM", "limM+"}, Oracles: or},
		{Name: "cold-nested-arr-root", Kind: "nested", T: 256, Keys: 2, Classes: []string{"t", "A", "M"}, Oracles: or, Extra: map[string]int{"rootmap": 0, "lr": 2, "lc": 2, "maxc": 3, "depth": 2, "nosettype": 1}},
		{Name: "cold-nested-map-root", Kind: "nested", T: 256, Keys: 2, Classes: []string{"t", "A", "M"}, Oracles: or, Extra: map[string]int{"rootmap": 1, "lr": 2, "lc": 2, "maxc": 3, "depth": 2, "nosettype": 1}},
	}
}
