package vf

func init() {
	RegisterCheck(&CheckDef{ID: "C10", Level: "model_checking", Run: runC10})
	RegisterCheck(&CheckDef{ID: "C11", Level: "model_checking", Run: runC11})
}

func nestedSpecs(r *Run, detach bool, oracles []string) []Spec {
	ex := func(rootmap, lr, lc, maxc, depth int) map[string]int {
		m := map[string]int{"rootmap": rootmap, "lr": lr, "lc": lc, "maxc": maxc, "depth": depth}
		if detach {
			m["detach"] = 1
		}
		return m
	}
	ex2 := func(rootmap, lr, lc, maxc, depth int) map[string]int {
		m := ex(rootmap, lr, lc, maxc, depth)
		m["nosettype"] = 1
		m["childcls"] = 1 // children hold only t / h
		return m
	}
	// two live handles to the same attached child, restricted to children that always stay a single slab
	// (no bulk pop, no grandchildren): the handles then share one root slab object for their whole life
	exTwo := func(rootmap, lr, lc, maxc, depth int) map[string]int {
		m := ex2(rootmap, lr, lc, maxc, depth)
		m["twoh"] = 1
		m["nocdrop"] = 1
		return m
	}
	var specs []Spec
	cls := []string{"t", "h", "A", "M"}
	if !r.Thorough() {
		specs = append(specs,
			Spec{Name: "nested-arr-root", Kind: "nested", T: 256, Keys: 2, Classes: []string{"t", "A", "M"}, Oracles: oracles, Extra: ex(0, 2, 2, 3, 2)},
			Spec{Name: "nested-map-root", Kind: "nested", T: 256, Keys: 2, Classes: []string{"t", "A", "M"}, Oracles: oracles, Extra: ex(1, 2, 2, 3, 2)},
			Spec{Name: "nested-arr-cross", Kind: "nested", T: 256, Keys: 2, Classes: []string{"t", "h", "A"}, Oracles: oracles, Extra: ex(0, 2, 3, 2, 2)},
			Spec{Name: "nested-map-cross", Kind: "nested", T: 256, Keys: 2, Classes: []string{"t", "h", "M"}, Oracles: oracles, Extra: ex(1, 2, 3, 2, 2)},
			Spec{Name: "nested-wrapped", Kind: "nested", T: 256, Keys: 2, Classes: []string{"t", "h", "s:A", "s:M"}, Oracles: oracles, Extra: ex(0, 2, 3, 2, 2), Depth: 0},
			Spec{Name: "nested-depth3", Kind: "nested", T: 256, Keys: 1, Classes: []string{"h", "A", "M"}, Oracles: oracles, Extra: ex(0, 1, 2, 3, 3)},
			Spec{Name: "nested-compact", Kind: "nested", T: 256, Keys: 1, Classes: []string{"Mc:t,t", "t"}, Oracles: oracles, Extra: ex2(0, 2, 2, 3, 2)},
			// children that hold values too large to inline (the child allocates a slab of its own while it is
			// itself stored inline in the parent, or not)
			Spec{Name: "nested-ext-arr", Kind: "nested", T: 256, Keys: 2, Classes: []string{"t", "limA+", "A"}, Oracles: oracles, Extra: ex(0, 2, 2, 2, 2)},
			Spec{Name: "nested-ext-map", Kind: "nested", T: 256, Keys: 2, Classes: []string{"t", "limM+", "M"}, Oracles: oracles, Extra: ex(1, 2, 2, 2, 2)},
			// children grown / shrunk to land EXACTLY on, and one byte over, the limit their parent grants them
			// (dynamic classes fit / fit+), all four parent/child kind combinations
			Spec{Name: "nested-fit-arr-arr", Kind: "nested", T: 256, Keys: 2, Classes: []string{"t", "fit", "fit+", "A"}, Oracles: oracles, Extra: ex(0, 1, 2, 2, 2)},
			Spec{Name: "nested-fit-arr-map", Kind: "nested", T: 256, Keys: 2, Classes: []string{"t", "fit", "fit+", "M"}, Oracles: oracles, Extra: ex(0, 1, 2, 2, 2)},
			Spec{Name: "nested-fit-map-arr", Kind: "nested", T: 256, Keys: 1, Classes: []string{"t", "fit", "fit+", "A"}, Oracles: oracles, Extra: ex(1, 1, 2, 2, 2)},
			Spec{Name: "nested-fit-map-map", Kind: "nested", T: 256, Keys: 1, Classes: []string{"t", "fit", "fit+", "M"}, Oracles: oracles, Extra: ex(1, 1, 2, 2, 2)},
			Spec{Name: "nested-fit-wrapped", Kind: "nested", T: 256, Keys: 1, Classes: []string{"t", "fit", "fit+", "s:A", "s:M"}, Oracles: oracles, Extra: ex(0, 1, 2, 2, 2)},
			// the parent is a map whose two keys COLLIDE on the first digest level: the children live inside an inline
			// collision group, which grows when a child grows (a re-Set of an existing key) and must be moved to an
			// external group once it exceeds the per-element limit
			Spec{Name: "nested-coll-parent", Kind: "nested", T: 256, Keys: 2, Classes: []string{"h", "A"}, Oracles: oracles, Digests: map[string][4]uint64{"0": {5, 1, 1, 1}, "1": {5, 2, 1, 1}}, Limit: 255,
				Extra: func() map[string]int { m := ex2(1, 2, 2, 3, 2); m["limit"] = 1; m["nocdrop"] = 1; return m }()},
			Spec{Name: "nested-coll-parent-wrapped", Kind: "nested", T: 256, Keys: 2, Classes: []string{"h", "s:A"}, Oracles: oracles, Digests: map[string][4]uint64{"0": {5, 1, 1, 1}, "1": {5, 2, 1, 1}}, Limit: 255,
				Extra: func() map[string]int { m := ex2(1, 2, 2, 3, 2); m["limit"] = 1; m["nocdrop"] = 1; return m }()},
			// ... and the two keys collide on EVERY digest level (digest-less list), the children wrapped: a child that
			// changes re-sets a wrapper around the same child object
			Spec{Name: "nested-coll-list-wrapped", Kind: "nested", T: 256, Keys: 2, Classes: []string{"h", "s:A"}, Oracles: oracles, Digests: map[string][4]uint64{"0": {5, 5, 5, 5}, "1": {5, 5, 5, 5}}, Limit: 255,
				Extra: func() map[string]int { m := ex2(1, 2, 2, 3, 2); m["limit"] = 1; m["nocdrop"] = 1; return m }()},
			Spec{Name: "nested-two-handles", Kind: "nested", T: 256, Keys: 2, Classes: []string{"t", "A", "M"}, Oracles: oracles, Extra: exTwo(0, 2, 3, 2, 2)},
			Spec{Name: "nested-two-handles-map", Kind: "nested", T: 256, Keys: 2, Classes: []string{"t", "A", "M"}, Oracles: oracles, Extra: exTwo(1, 2, 3, 2, 2)},
			Spec{Name: "nested-parent-split", Kind: "nested", T: 256, Keys: 2, Classes: []string{"limA", "s30", "A"}, Oracles: oracles, Extra: ex2(0, 4, 3, 2, 2)},
			Spec{Name: "nested-parent-split-map", Kind: "nested", T: 256, Keys: 4, Classes: []string{"limM", "s30", "A"}, Oracles: oracles, Extra: ex2(1, 4, 3, 2, 2)},
		)
	} else {
		specs = append(specs,
			Spec{Name: "nested-arr-root", Kind: "nested", T: 256, Keys: 2, Classes: cls, Oracles: oracles, Extra: ex(0, 3, 3, 4, 2)},
			Spec{Name: "nested-map-root", Kind: "nested", T: 256, Keys: 3, Classes: cls, Oracles: oracles, Extra: ex(1, 3, 3, 4, 2)},
			Spec{Name: "nested-wrapped", Kind: "nested", T: 256, Keys: 2, Classes: []string{"t", "h", "s:A", "s:M", "ss:A"}, Oracles: oracles, Extra: ex(0, 2, 3, 3, 2)},
			Spec{Name: "nested-depth3", Kind: "nested", T: 256, Keys: 2, Classes: []string{"t", "h", "A", "M"}, Oracles: oracles, Extra: ex(0, 2, 2, 4, 3)},
			Spec{Name: "nested-depth3-map", Kind: "nested", T: 256, Keys: 2, Classes: []string{"t", "h", "A", "M"}, Oracles: oracles, Extra: ex(1, 2, 2, 4, 3)},
			Spec{Name: "nested-arr-root-T512", Kind: "nested", T: 512, Keys: 2, Classes: cls, Oracles: oracles, Extra: ex(0, 2, 3, 3, 2)},
			Spec{Name: "nested-ext-arr", Kind: "nested", T: 256, Keys: 2, Classes: []string{"t", "limA+", "h", "A", "M"}, Oracles: oracles, Extra: ex(0, 2, 2, 3, 2)},
			Spec{Name: "nested-ext-map", Kind: "nested", T: 256, Keys: 2, Classes: []string{"t", "limM+", "h", "A", "M"}, Oracles: oracles, Extra: ex(1, 2, 2, 3, 2)},
		)
	}
	return specs
}

func runC10(r *Run) {
	r.Rule = "explicit-state BFS (closure) over a root array/map holding nested arrays/maps (plain or wrapped, up to 3 levels) mutated through handles obtained on insertion, by lookup and by mutable iteration, interleaved with parent operations, commits, cache drops and reopenings; after every transition: content read through the root == nested model, in-repo verifiers on the root, child inlined <=> single slab fitting the parent's limit (computed independently), value IDs stable, and after commit+reopen the content still equals the model"
	r.Assumptions = []string{
		"one live handle per attached container (re-obtained after reopen/cache drop); coherence between two handles of the same child is not in the property",
		"containers are never attached twice (aliasing misuse excluded)",
		"closure holds inside the bounded universe (element bounds, <= 4 live containers, 2 size classes crossing the inline limit)",
	}
	r.ExploreSpecs(nestedSpecs(r, false, []string{"sem", "struct", "inline", "reopen", "events"}))
	// all histories up to a depth bound WITHOUT state deduplication (hidden state the key cannot see)
	nd := func(name string, rootmap, depth int, classes []string, extra map[string]int) Spec {
		e := map[string]int{"rootmap": rootmap, "lr": 2, "lc": 3, "maxc": 2, "depth": 2, "nosettype": 1, "childcls": 1, "nocdrop": 1, "nodedup": 1}
		for k, v := range extra {
			e[k] = v
		}
		return Spec{Name: name, Kind: "nested", T: 256, Keys: 2, Classes: classes, Oracles: []string{"sem", "struct", "inline", "reopen"}, Extra: e, Depth: depth}
	}
	d := 6
	if r.Thorough() {
		d = 8
	}
	r.ExploreSpecs([]Spec{
		nd("nodedup-arr", 0, d, []string{"A"}, nil),
		nd("nodedup-map", 1, d, []string{"M"}, nil),
		nd("nodedup-two-handles", 0, d, []string{"A"}, map[string]int{"twoh": 1, "lr": 1}),
		nd("nodedup-two-handles-map", 1, d, []string{"M"}, map[string]int{"twoh": 1, "lr": 1}),
	})
	// children spread over multi-level parents: handle obtained, parent restructured (splits, merges,
	// the child moving to another slab), child mutated across the inline limit through the handle
	var ks []Spec
	kor := []string{"sem", "struct", "inline", "reopen"}
	step, depth := 7, 2
	if r.Thorough() {
		step = 3
	}
	for _, sc := range []string{"arr-kids", "map-kids"} {
		sp := TrajSpecs(r.ID, sc, 64, 8, 65, step, depth, 256, []string{"limA"}, kor)
		for i := range sp {
			sp[i].Kind = "traj-kids"
		}
		ks = append(ks, sp...)
	}
	r.ExploreSpecs(ks)
}

func runC11(r *Run) {
	r.Rule = "explicit-state BFS (closure) over the nested universe extended with detach-by-remove, detach-by-overwrite, re-attach and dispose; handles taken before detachment keep being used afterwards while the former parent keeps being mutated; after every transition: former parent content/structure == model (unaffected by stale mutations), the detached child is a standalone value with unchanged value id, reloadable by slab id after commit on a fresh storage, and storage IDs == reachable IDs with detached containers counted as roots"
	r.Assumptions = []string{
		"children detached by PopIterate of their parent are destroyed values and not used afterwards",
		"containers are never attached twice at the same time",
	}
	or := []string{"sem", "struct", "inline", "reach", "reopen", "events"}
	ex := func(rootmap, lr, lc, maxc, depth int) map[string]int {
		m := map[string]int{"rootmap": rootmap, "lr": lr, "lc": lc, "maxc": maxc, "depth": depth, "detach": 1, "nosettype": 1}
		return m
	}
	exOld := func(rootmap, lr, lc, maxc, depth int) map[string]int {
		m := ex(rootmap, lr, lc, maxc, depth)
		m["oldhandle"] = 1
		return m
	}
	exND := func(rootmap int) map[string]int {
		m := ex(rootmap, 2, 2, 3, 2)
		m["nodedup"] = 1
		m["childcls"] = 1
		return m
	}
	var specs []Spec
	if !r.Thorough() {
		specs = []Spec{
			{Name: "detach-arr", Kind: "nested", T: 256, Keys: 2, Classes: []string{"t", "h", "A"}, Oracles: or, Extra: ex(0, 2, 2, 2, 2)},
			{Name: "detach-map", Kind: "nested", T: 256, Keys: 2, Classes: []string{"t", "h", "M"}, Oracles: or, Extra: ex(1, 2, 2, 2, 2)},
			{Name: "detach-wrapped", Kind: "nested", T: 256, Keys: 2, Classes: []string{"t", "s:A", "s:M"}, Oracles: or, Extra: ex(0, 2, 2, 2, 2)},
			{Name: "detach-2kids", Kind: "nested", T: 256, Keys: 2, Classes: []string{"t", "A", "M"}, Oracles: or, Extra: ex(0, 2, 1, 3, 2)},
			{Name: "detach-2kids-map", Kind: "nested", T: 256, Keys: 2, Classes: []string{"t", "A", "M"}, Oracles: or, Extra: ex(1, 2, 1, 3, 2)},
			{Name: "detach-depth3", Kind: "nested", T: 256, Keys: 1, Classes: []string{"h", "A", "M"}, Oracles: or, Extra: ex(0, 1, 2, 3, 3)},
			{Name: "detach-compact", Kind: "nested", T: 256, Keys: 1, Classes: []string{"Mc:t,t"}, Oracles: or, Extra: ex(0, 2, 2, 3, 2)},
			// type changes of detached containers (and of their attached siblings): same-typed children decoded from one
			// parent register must not share type information
			{Name: "detach-settype", Kind: "nested", T: 256, Keys: 2, Classes: []string{"t", "A"}, Oracles: or, Extra: func() map[string]int { m := ex(0, 2, 1, 3, 2); delete(m, "nosettype"); return m }()},
			{Name: "detach-settype-map", Kind: "nested", T: 256, Keys: 2, Classes: []string{"t", "A", "M"}, Oracles: or, Extra: func() map[string]int { m := ex(1, 2, 1, 2, 2); delete(m, "nosettype"); return m }()},
			// the caller keeps using the handles it held before the detachment (of the detached container and of
			// its own nested containers): the detached container must stay a coherent value of its own
			{Name: "detach-oldhandle-depth3", Kind: "nested", T: 256, Keys: 1, Classes: []string{"h", "A", "M"}, Oracles: or, Extra: exOld(0, 1, 2, 3, 3)},
			{Name: "detach-oldhandle-map-depth3", Kind: "nested", T: 256, Keys: 1, Classes: []string{"h", "A", "M"}, Oracles: or, Extra: exOld(1, 1, 2, 3, 3)},
			// a detached container offered back at an invalid position: the refusal must leave it the intact,
			// independently stored value it was (and the history goes on through its handle)
			{Name: "detach-rejected-reattach", Kind: "nested", T: 256, Keys: 2, Classes: []string{"t", "h", "A"}, Oracles: or, Extra: func() map[string]int { m := ex(0, 2, 2, 2, 2); m["rej"] = 1; return m }()},
			{Name: "detach-nodedup-arr", Kind: "nested", T: 256, Keys: 2, Classes: []string{"t", "A"}, Oracles: []string{"sem", "struct", "inline", "reach", "reopen"}, Extra: exND(0), Depth: 5},
			{Name: "detach-nodedup-map", Kind: "nested", T: 256, Keys: 2, Classes: []string{"t", "M"}, Oracles: []string{"sem", "struct", "inline", "reach", "reopen"}, Extra: exND(1), Depth: 5},
		}
	} else {
		specs = []Spec{
			{Name: "detach-arr", Kind: "nested", T: 256, Keys: 2, Classes: []string{"t", "h", "A"}, Oracles: or, Extra: ex(0, 2, 3, 2, 2)},
			{Name: "detach-map", Kind: "nested", T: 256, Keys: 2, Classes: []string{"t", "h", "M"}, Oracles: or, Extra: ex(1, 2, 3, 2, 2)},
			{Name: "detach-wrapped", Kind: "nested", T: 256, Keys: 2, Classes: []string{"t", "h", "s:A", "s:M"}, Oracles: or, Extra: ex(0, 2, 2, 2, 2)},
			{Name: "detach-2kids", Kind: "nested", T: 256, Keys: 2, Classes: []string{"t", "A", "M"}, Oracles: or, Extra: ex(0, 2, 2, 3, 2)},
			{Name: "detach-2kids-map", Kind: "nested", T: 256, Keys: 2, Classes: []string{"t", "A", "M"}, Oracles: or, Extra: ex(1, 2, 2, 3, 2)},
			{Name: "detach-depth3", Kind: "nested", T: 256, Keys: 1, Classes: []string{"h", "A", "M"}, Oracles: or, Extra: ex(0, 1, 2, 3, 3)},
			{Name: "detach-arr-T512", Kind: "nested", T: 512, Keys: 2, Classes: []string{"t", "h", "A"}, Oracles: or, Extra: ex(0, 2, 2, 2, 2)},
			{Name: "detach-compact", Kind: "nested", T: 256, Keys: 1, Classes: []string{"Mc:t,t", "t"}, Oracles: or, Extra: ex(0, 3, 2, 4, 2)},
			{Name: "detach-oldhandle-depth3", Kind: "nested", T: 256, Keys: 1, Classes: []string{"h", "A", "M"}, Oracles: or, Extra: exOld(0, 1, 2, 3, 3)},
			{Name: "detach-oldhandle-map-depth3", Kind: "nested", T: 256, Keys: 1, Classes: []string{"h", "A", "M"}, Oracles: or, Extra: exOld(1, 1, 2, 3, 3)},
			{Name: "detach-oldhandle-2kids", Kind: "nested", T: 256, Keys: 2, Classes: []string{"t", "A", "M"}, Oracles: or, Extra: exOld(0, 2, 1, 3, 2)},
			{Name: "detach-nodedup-arr", Kind: "nested", T: 256, Keys: 2, Classes: []string{"t", "A"}, Oracles: []string{"sem", "struct", "inline", "reach", "reopen"}, Extra: exND(0), Depth: 6},
			{Name: "detach-nodedup-map", Kind: "nested", T: 256, Keys: 2, Classes: []string{"t", "M"}, Oracles: []string{"sem", "struct", "inline", "reach", "reopen"}, Extra: exND(1), Depth: 6},
		}
	}
	r.ExploreSpecs(specs)
}
