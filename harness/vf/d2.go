package vf

import (
	"bytes"
	"fmt"
	"sort"
	"strings"

	"github.com/onflow/atree"
)

// D2: the three-layer storage state machine (C15), explored to closure directly on
// PersistentSlabStorage against a three-map model.

type sID struct {
	id   atree.SlabID
	temp bool
}

type sOp struct {
	K    string // store remove retrieve rigd commit ncommit dropdeltas dropcache preload recreate
	ID   int
	Ver  int
	Flag bool
	N    int   // workers
	Fail int   // index of failing ledger mutation (-1 none)
	Set  []int // preload set
}

func (o sOp) String() string {
	switch o.K {
	case "store":
		return fmt.Sprintf("store(%d,v%d)", o.ID, o.Ver)
	case "remove", "retrieve":
		return fmt.Sprintf("%s(%d)", o.K, o.ID)
	case "rigd":
		return fmt.Sprintf("retrieveIgnoringDeltas(%d,%v)", o.ID, o.Flag)
	case "commit", "ncommit":
		if o.Fail >= 0 {
			return fmt.Sprintf("%s(%d,fail@%d)", o.K, o.N, o.Fail)
		}
		return fmt.Sprintf("%s(%d)", o.K, o.N)
	case "preload":
		return fmt.Sprintf("preload(%v,%d)", o.Set, o.N)
	}
	return o.K
}

// sModel: ledger 0 absent / version; deltas 0 none / version / 3 deleted; cache 0 none / version / 3 absent.
type sModel struct {
	ledger, deltas, cache []int8
}

func (m sModel) key() string {
	return fmt.Sprint(m.ledger, m.deltas, m.cache)
}

func (m sModel) clone() sModel {
	return sModel{append([]int8(nil), m.ledger...), append([]int8(nil), m.deltas...), append([]int8(nil), m.cache...)}
}

func (m sModel) view(i int) int8 {
	if m.deltas[i] == 3 {
		return 0
	}
	if m.deltas[i] != 0 {
		return m.deltas[i]
	}
	// the read cache is transparent: it can only mirror the ledger
	return m.ledger[i]
}

type sUniverse struct {
	ids  []atree.SlabID
	vers int
}

func verBytes(v int8) []byte {
	// storable slab: version 1, flags storable|anySize, content = text string "v<n>" padded by version
	s := fmt.Sprintf("v%d%s", v, strings.Repeat("x", int(v)))
	return append([]byte{0x10, 0x3f, 0x60 | byte(len(s))}, s...)
}

func (u *sUniverse) slab(i int, v int8) atree.Slab {
	s, err := atree.DecodeSlab(u.ids[i], verBytes(v), decMode, DecodeStorable, DecodeTypeInfo)
	if err != nil {
		panic(err)
	}
	return s
}

func slabVer(s atree.Slab) int8 {
	if s == nil {
		return 0
	}
	b, err := atree.EncodeSlab(s, encMode)
	if err != nil {
		return -1
	}
	for v := int8(1); v <= 3; v++ {
		if bytes.Equal(b, verBytes(v)) {
			return v
		}
	}
	return -1
}

// sWorld is the real storage plus the model.
type sWorld struct {
	u  *sUniverse
	l  *Ledger
	st *atree.PersistentSlabStorage
	m  sModel
}

func newSWorld(u *sUniverse) *sWorld {
	l := NewLedger()
	n := len(u.ids)
	return &sWorld{u: u, l: l, st: NewStorage(l), m: sModel{make([]int8, n), make([]int8, n), make([]int8, n)}}
}

func (w *sWorld) ownedPending() []int {
	var p []int
	for i := range w.u.ids {
		if w.m.deltas[i] != 0 && !w.u.ids[i].HasTempAddress() {
			p = append(p, i)
		}
	}
	sort.Slice(p, func(a, b int) bool { return w.u.ids[p[a]].Compare(w.u.ids[p[b]]) < 0 })
	return p
}

// apply executes op on the real storage and the model; returns a violation message or "".
func (w *sWorld) apply(o sOp) (msg string) {
	defer func() {
		if r := recover(); r != nil {
			msg = fmt.Sprintf("panic in %s: %v", o, r)
		}
	}()
	u, m := w.u, &w.m
	switch o.K {
	case "store":
		if err := w.st.Store(u.ids[o.ID], u.slab(o.ID, int8(o.Ver))); err != nil {
			return fmt.Sprintf("%s failed: %v", o, err)
		}
		m.deltas[o.ID] = int8(o.Ver)
	case "remove":
		if err := w.st.Remove(u.ids[o.ID]); err != nil {
			return fmt.Sprintf("%s failed: %v", o, err)
		}
		m.deltas[o.ID] = 3
	case "retrieve":
		s, ok, err := w.st.Retrieve(u.ids[o.ID])
		if err != nil {
			return fmt.Sprintf("%s failed: %v", o, err)
		}
		want := m.view(o.ID)
		if ok != (want != 0) || slabVer(s) != want {
			return fmt.Sprintf("%s returned version %d found=%v, model view is %d", o, slabVer(s), ok, want)
		}
	case "rigd":
		s, ok, err := w.st.RetrieveIgnoringDeltas(u.ids[o.ID], o.Flag)
		if err != nil {
			return fmt.Sprintf("%s failed: %v", o, err)
		}
		want := m.ledger[o.ID]
		if ok != (want != 0) || slabVer(s) != want {
			return fmt.Sprintf("%s returned version %d found=%v, committed version is %d", o, slabVer(s), ok, want)
		}
	case "commit", "ncommit":
		pend := w.ownedPending()
		w.l.FailAt = nil
		w.l.MutCount = 0
		if o.Fail >= 0 {
			w.l.FailAt = map[int]bool{o.Fail: true}
		}
		w.l.Phase = "commit"
		logStart := len(w.l.Log)
		var err error
		if o.K == "commit" {
			err = w.st.FastCommit(o.N)
		} else {
			err = w.st.NondeterministicFastCommit(o.N)
		}
		w.l.Phase = ""
		w.l.FailAt = nil
		calls := w.l.Log[logStart:]
		willFail := o.Fail >= 0 && o.Fail < len(pend)
		if willFail != (err != nil) {
			return fmt.Sprintf("%s with %d pending owned changes returned error %v", o, len(pend), err)
		}
		if err != nil && !IsInjected(err) {
			return fmt.Sprintf("%s failed with a foreign error: %v", o, err)
		}
		if err != nil {
			var ee *atree.ExternalError
			if !asErr(err, &ee) {
				return fmt.Sprintf("%s: ledger failure reported as %T, want an external error", o, err)
			}
		}
		// which ids were durably written is read off the ledger's own success log
		done := map[atree.SlabID]bool{}
		for _, c := range calls {
			if c.OK && (c.Kind == "store" || c.Kind == "remove") {
				done[c.ID] = true
			}
		}
		if o.K == "commit" {
			// deterministic commit: ascending (owner, index) order, stops at the failing mutation
			for k, i := range pend {
				shouldBeDone := !willFail || k < o.Fail
				if done[u.ids[i]] != shouldBeDone {
					return fmt.Sprintf("%s: slab %d written=%v, deterministic order says %v", o, i, done[u.ids[i]], shouldBeDone)
				}
			}
			var seq []atree.SlabID
			for _, c := range calls {
				seq = append(seq, c.ID)
			}
			for k := 1; k < len(seq); k++ {
				if seq[k-1].Compare(seq[k]) >= 0 {
					return fmt.Sprintf("%s: ledger mutations not in ascending (owner,index) order: %v", o, seq)
				}
			}
		}
		nDone := 0
		for _, i := range pend {
			if done[u.ids[i]] {
				nDone++
				if m.deltas[i] == 3 {
					m.ledger[i] = 0
				} else {
					m.ledger[i] = m.deltas[i]
				}
				m.deltas[i] = 0
			}
		}
		if !willFail && nDone != len(pend) {
			return fmt.Sprintf("%s succeeded but wrote %d of %d pending changes", o, nDone, len(pend))
		}
		if willFail && nDone >= len(pend) {
			return fmt.Sprintf("%s failed but all %d pending changes were written", o, len(pend))
		}
	case "dropdeltas":
		w.st.DropDeltas()
		for i := range m.deltas {
			m.deltas[i] = 0
		}
	case "dropcache":
		w.st.DropCache()
	case "preload":
		var ids []atree.SlabID
		for _, i := range o.Set {
			ids = append(ids, u.ids[i])
		}
		if err := w.st.BatchPreload(ids, o.N); err != nil {
			return fmt.Sprintf("%s failed: %v", o, err)
		}
	case "recreate":
		w.st = NewStorage(w.l)
		for i := range m.deltas {
			m.deltas[i] = 0
		}
	}
	return w.observe(o)
}

func asErr[T error](err error, target *T) bool {
	for err != nil {
		if t, ok := err.(T); ok {
			*target = t
			return true
		}
		u, ok := err.(interface{ Unwrap() error })
		if !ok {
			return false
		}
		err = u.Unwrap()
	}
	return false
}

// observe compares every side-effect-free observation and the three layers with the model.
func (w *sWorld) observe(after sOp) string {
	u, m := w.u, &w.m
	cache, deltas := atree.VerifStorageLayers(w.st)
	nD, nOwned := 0, 0
	var size uint64
	unsaved := map[atree.Address]bool{}
	for i, id := range u.ids {
		// ledger
		var lv int8
		if b, ok := w.l.Regs[id]; ok {
			lv = -1
			for v := int8(1); v <= 3; v++ {
				if bytes.Equal(b, verBytes(v)) {
					lv = v
				}
			}
		}
		if lv != m.ledger[i] {
			return fmt.Sprintf("after %s: ledger holds version %d of slab %d, model %d", after, lv, i, m.ledger[i])
		}
		if id.HasTempAddress() && lv != 0 {
			return fmt.Sprintf("after %s: temporary-address slab %d was written to the ledger", after, i)
		}
		// write set
		ds, inD := deltas[id]
		var dv int8
		if inD {
			dv = slabVer(ds)
			if ds == nil {
				dv = 3
			}
		}
		if dv != m.deltas[i] {
			return fmt.Sprintf("after %s: write set holds %d for slab %d, model %d", after, dv, i, m.deltas[i])
		}
		// cache
		cs, inC := cache[id]
		var cv int8
		if inC {
			cv = slabVer(cs)
			if cs == nil {
				cv = 3
			}
		}
		// The cache is not predicted (caching policy is the implementation's business); it is
		// observed, becomes part of the state key, and must mirror the ledger: a present entry holds
		// the committed version, a cached absence means the ledger has no such register.
		m.cache[i] = cv
		if cv == 3 && m.ledger[i] != 0 || cv != 0 && cv != 3 && cv != m.ledger[i] {
			return fmt.Sprintf("after %s: read cache holds %d for slab %d but the ledger holds version %d (a superseded entry would be served)", after, cv, i, m.ledger[i])
		}
		// is-loaded
		// is-loaded: a pending change is always loaded; otherwise either nothing or the committed version
		il := slabVer(w.st.RetrieveIfLoaded(id))
		switch {
		case m.deltas[i] == 3:
			if il != 0 {
				return fmt.Sprintf("after %s: RetrieveIfLoaded(%d) returns version %d of a slab whose removal is pending", after, i, il)
			}
		case m.deltas[i] != 0:
			if il != m.deltas[i] {
				return fmt.Sprintf("after %s: RetrieveIfLoaded(%d) = version %d, the pending version is %d", after, i, il, m.deltas[i])
			}
		default:
			if il != 0 && il != m.ledger[i] {
				return fmt.Sprintf("after %s: RetrieveIfLoaded(%d) = version %d, the committed version is %d", after, i, il, m.ledger[i])
			}
		}
		if m.deltas[i] != 0 {
			nD++
			unsaved[id.Address()] = true
			if !id.HasTempAddress() {
				nOwned++
				if m.deltas[i] != 3 {
					size += uint64(u.slab(i, m.deltas[i]).ByteSize())
				}
			}
		}
	}
	if w.st.Deltas() != uint(nD) {
		return fmt.Sprintf("after %s: Deltas() = %d, model %d", after, w.st.Deltas(), nD)
	}
	if w.st.DeltasWithoutTempAddresses() != uint(nOwned) {
		return fmt.Sprintf("after %s: DeltasWithoutTempAddresses() = %d, model %d", after, w.st.DeltasWithoutTempAddresses(), nOwned)
	}
	if w.st.DeltasSizeWithoutTempAddresses() != size {
		return fmt.Sprintf("after %s: DeltasSizeWithoutTempAddresses() = %d, model %d", after, w.st.DeltasSizeWithoutTempAddresses(), size)
	}
	addrs := map[atree.Address]bool{}
	for _, id := range u.ids {
		addrs[id.Address()] = true
	}
	for a := range addrs {
		if w.st.HasUnsavedChanges(a) != unsaved[a] {
			return fmt.Sprintf("after %s: HasUnsavedChanges(%x) = %v, model %v", after, a, w.st.HasUnsavedChanges(a), unsaved[a])
		}
	}
	if len(w.l.OutsideCommit) > 0 {
		return fmt.Sprintf("after %s: ledger mutated outside a commit", after)
	}
	if len(deltas) != nD {
		return fmt.Sprintf("after %s: write set has %d entries, model %d", after, len(deltas), nD)
	}
	return ""
}

func (u *sUniverse) ops(m sModel, preloadAll bool) []sOp {
	var ops []sOp
	n := len(u.ids)
	for i := 0; i < n; i++ {
		for v := 1; v <= u.vers; v++ {
			ops = append(ops, sOp{K: "store", ID: i, Ver: v, Fail: -1})
		}
		ops = append(ops, sOp{K: "remove", ID: i, Fail: -1}, sOp{K: "retrieve", ID: i, Fail: -1},
			sOp{K: "rigd", ID: i, Flag: false, Fail: -1}, sOp{K: "rigd", ID: i, Flag: true, Fail: -1})
	}
	ops = append(ops, sOp{K: "commit", N: 1, Fail: -1}, sOp{K: "commit", N: 2, Fail: -1},
		sOp{K: "ncommit", N: 1, Fail: -1}, sOp{K: "ncommit", N: 2, Fail: -1})
	// every position of a failing ledger mutation
	pending := 0
	for i := 0; i < n; i++ {
		if m.deltas[i] != 0 && !u.ids[i].HasTempAddress() {
			pending++
		}
	}
	for j := 0; j < pending; j++ {
		ops = append(ops, sOp{K: "commit", N: 1, Fail: j}, sOp{K: "commit", N: 2, Fail: j}, sOp{K: "ncommit", N: 2, Fail: j})
	}
	ops = append(ops, sOp{K: "dropdeltas", Fail: -1}, sOp{K: "dropcache", Fail: -1}, sOp{K: "recreate", Fail: -1})
	if preloadAll {
		all := make([]int, n)
		for i := range all {
			all[i] = i
		}
		ops = append(ops, sOp{K: "preload", Set: all, N: 2, Fail: -1}, sOp{K: "preload", Set: all, N: 3, Fail: -1})
		ops = append(ops, sOp{K: "preload", Set: all[:n-1], N: 2, Fail: -1})
	} else {
		for mask := 1; mask < 1<<n; mask++ {
			var set []int
			for i := 0; i < n; i++ {
				if mask&(1<<i) != 0 {
					set = append(set, i)
				}
			}
			ops = append(ops, sOp{K: "preload", Set: set, N: 2, Fail: -1})
		}
	}
	return ops
}

// exploreStorage runs the closure.
func exploreStorage(r *Run, name string, u *sUniverse, preloadAll bool, storeIDs []int) {
	type node struct{ path []sOp }
	build := func(path []sOp) (*sWorld, string) {
		w := newSWorld(u)
		for _, o := range path {
			if msg := w.apply(o); msg != "" {
				return w, msg
			}
		}
		return w, ""
	}
	seen := map[string]bool{}
	w0 := newSWorld(u)
	seen[w0.m.key()] = true
	frontier := []node{{nil}}
	states, trans, opsRun, depth := 1, 0, 0, 0
	pathStr := func(p []sOp) string {
		ss := make([]string, len(p))
		for i, o := range p {
			ss[i] = o.String()
		}
		return strings.Join(ss, " ")
	}
	for len(frontier) > 0 {
		if time_After(r.Deadline()) {
			r.Stats.Exhaustive = false
			r.Stats.CapHit = fmt.Sprintf("deadline in storage closure %s at depth %d", name, depth)
			break
		}
		var next []node
		for _, nd := range frontier {
			w, msg := build(nd.path)
			if msg != "" {
				r.HarnessErr = fmt.Errorf("storage replay diverged at [%s]: %s", pathStr(nd.path), msg)
				return
			}
			allOps := u.ops(w.m, preloadAll)
			for _, o := range allOps {
				if storeIDs != nil && (o.K == "store" || o.K == "remove" || o.K == "retrieve" || o.K == "rigd") {
					ok := false
					for _, x := range storeIDs {
						if x == o.ID {
							ok = true
						}
					}
					if !ok {
						continue
					}
				}
				w2, _ := build(nd.path)
				opsRun += len(nd.path) + 1
				trans++
				msg := w2.apply(o)
				p := append(append([]sOp{}, nd.path...), o)
				if msg != "" {
					if len(r.Found) < 3 {
						r.Found = append(r.Found, Found{Spec: Spec{Name: name, Kind: "storage"}, Msg: msg + " — history: [" + pathStr(p) + "]"})
					}
					continue
				}
				k := w2.m.key()
				if !seen[k] {
					seen[k] = true
					states++
					next = append(next, node{p})
					if len(r.Stats.Samples) < 12 && states%211 == 1 {
						r.Stats.Samples = append(r.Stats.Samples, name+": "+pathStr(p))
					}
				}
			}
		}
		frontier = next
		if len(next) > 0 {
			depth++
		}
		if len(r.Found) >= 3 {
			break
		}
	}
	fmt.Printf("  storage closure %-22s states=%d transitions=%d ops=%d maxdepth=%d\n", name, states, trans, opsRun, depth)
	r.Stats.States += states
	r.Stats.Transitions += trans
	r.Stats.OpsRun += opsRun
	if depth > r.Stats.MaxDepth {
		r.Stats.MaxDepth = depth
	}
}

func init() {
	RegisterCheck(&CheckDef{ID: "C15", Level: "model_checking", Run: func(r *Run) {
		r.Rule = "explicit-state BFS to closure of the three-layer storage state machine on the real PersistentSlabStorage: identifiers under two owners and the temporary address, two slab versions; transitions: store, remove, retrieve, retrieve-ignoring-deltas (caching on/off), both commits with 1-2 workers, both commits with the j-th ledger mutation failing (every j), drop-deltas, drop-cache, batch preload of every subset, storage re-creation; after every transition the ledger bytes, write set and cache (read through the hook) equal a three-map model and every observer (Retrieve result, RetrieveIfLoaded, Deltas, DeltasWithoutTempAddresses, DeltasSizeWithoutTempAddresses, HasUnsavedChanges per owner) agrees; a state = the model triple"
		r.Assumptions = []string{
			"for the order-relaxed commit with an injected fault, which mutations succeeded is read from the ledger's own log (any subset consistent with the invariants is accepted); for the deterministic commit the exact prefix is required",
			"the parallel BatchPreload path (>= 11 ids) is exercised by a second universe of 12 identifiers under one owner with stores restricted to three of them",
		}
		mk := func(addr atree.Address, idx uint64) atree.SlabID {
			var i atree.SlabIndex
			i[7] = byte(idx)
			return atree.NewSlabID(addr, i)
		}
		if !r.Thorough() {
			u := &sUniverse{ids: []atree.SlabID{mk(DefaultAddr, 1), mk(OtherAddr, 1), mk(atree.Address{}, 1)}, vers: 2}
			exploreStorage(r, "3ids-2versions", u, false, nil)
		} else {
			u := &sUniverse{ids: []atree.SlabID{mk(DefaultAddr, 1), mk(DefaultAddr, 2), mk(OtherAddr, 1), mk(atree.Address{}, 1)}, vers: 2}
			exploreStorage(r, "4ids-2versions", u, false, nil)
		}
		var ids []atree.SlabID
		for i := 1; i <= 12; i++ {
			ids = append(ids, mk(DefaultAddr, uint64(i)))
		}
		u12 := &sUniverse{ids: ids, vers: 1}
		exploreStorage(r, "12ids-parallel-preload", u12, true, []int{0, 5, 11})
		// the write set may hold a slab that cannot be encoded (a caller-supplied storable failing at commit time,
		// inline or as a large value in its own slab): the commit must not report success nor empty the write set
		r.RunTaskGroup("commits of a write set with an unencodable value (inline / own slab) x commit kind x workers", "encfail", encFailArgs())
	}})
}
