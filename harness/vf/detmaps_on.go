//go:build pools && !sched

package vf

import "github.com/onflow/atree/vsched"

// Sequential checks: every `range` over a Go map inside package atree (when the sources could be
// rewritten, see run.sh) iterates in canonical order, so executions and replays are reproducible.
func init() { vsched.DetMaps = true }
