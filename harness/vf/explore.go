package vf

import (
	"bufio"
	"encoding/json"
	"fmt"
	"io"
	"os"
	"os/exec"
	"runtime"
	"runtime/debug"
	"sort"
	"strings"
	"sync"
	"sync/atomic"
	"time"
)

// Spec describes one state space + oracle set.  It is plain data: worker processes rebuild the
// space from it.
type Spec struct {
	Name    string               `json:"name"`
	Prop    string               `json:"prop"`
	Kind    string               `json:"kind"` // space generator
	T       uint32               `json:"t"`
	L       int                  `json:"l,omitempty"`       // element bound
	Classes []string             `json:"classes,omitempty"` // value classes
	Keys    int                  `json:"keys,omitempty"`
	Depth   int                  `json:"depth,omitempty"` // 0 = closure
	Oracles []string             `json:"oracles,omitempty"`
	Seed    string               `json:"seed,omitempty"` // named seed script (trajectory state) replayed before the path
	SeedN   int                  `json:"seedn,omitempty"`
	Extra   map[string]int       `json:"extra,omitempty"`
	Digests map[string][4]uint64 `json:"digests,omitempty"`
	Limit   int                  `json:"limit,omitempty"`
}

func (s Spec) Has(oracle string) bool {
	for _, o := range s.Oracles {
		if o == oracle {
			return true
		}
	}
	return false
}

// Space is a state space explored by BFS.
type Space interface {
	// Build replays path on a fresh world.  strict=false for the replayed prefix.
	Build(path []Op) (*World, error)
	// Ops lists the operations enabled in w's state (deterministic order, simplest first).
	Ops(w *World) []Op
	// Check evaluates the state oracles on w, which is discarded afterwards.
	Check(w *World) error
}

var spaceMakers = map[string]func(Spec) Space{}

func RegisterSpace(kind string, mk func(Spec) Space) { spaceMakers[kind] = mk }

func MakeSpace(s Spec) Space {
	mk, ok := spaceMakers[s.Kind]
	if !ok {
		panic("unknown space kind " + s.Kind)
	}
	return mk(s)
}

// ---- worker protocol ---------------------------------------------------------------------

type workReq struct {
	Spec Spec `json:"spec"`
	Path []Op `json:"path"`
	// Only selects what an expansion request computes: 0 = every successor (default), -1 = just the list of
	// enabled operations, k > 0 = successor number k-1 alone (used to find the operation that does not return)
	Only int `json:"only,omitempty"`
}

type succ struct {
	Op    Op     `json:"op"`
	Key   string `json:"key"`
	Viol  string `json:"viol,omitempty"`
	Herr  string `json:"herr,omitempty"`
	Term  bool   `json:"term,omitempty"`  // terminal: judged, but not explored further
	Shape string `json:"shape,omitempty"` // coarse structural class of the successor state (evidence: non-vacuity)
	Inner int    `json:"inner,omitempty"` // evaluations made inside the state oracle (e.g. injected fault sets)
}

// TaskResult is what a generic (non-BFS) task returns.
type TaskResult struct {
	Evals    int            `json:"evals"`
	Distinct []string       `json:"distinct,omitempty"` // keys of distinct non-trivial cases (hashed)
	Samples  []string       `json:"samples,omitempty"`
	Viols    []string       `json:"viols,omitempty"`
	Herr     string         `json:"herr,omitempty"`
	Counters map[string]int `json:"counters,omitempty"`
}

var taskHandlers = map[string]func(arg json.RawMessage) TaskResult{}

func RegisterTask(name string, h func(arg json.RawMessage) TaskResult) { taskHandlers[name] = h }

type workResp struct {
	Task     *TaskResult `json:"task,omitempty"`
	Succs    []succ      `json:"succs"`
	Herr     string      `json:"herr,omitempty"`
	OpsRun   int         `json:"ops"`
	InitKey  string      `json:"initkey,omitempty"`
	InitViol string      `json:"initviol,omitempty"`
	OpsList  []Op        `json:"opslist,omitempty"`
	Hang     []Op        `json:"-"` // set by the coordinator: the history whose last operation does not return
}

// expandState computes all successors of the state reached by path.
// coldOp: the same transition once more with a commit placed BEFORE the operation (every slab clean when it runs),
// then commit and recover from the registers: what the operation must add to the write set is only visible then.
// This costs no extra states: the commit is not part of the explored histories.
func coldOp(sp Space, path []Op, op Op) (viol string, herr string) {
	defer func() {
		if r := recover(); r != nil {
			if at := libraryPanicSite(debug.Stack()); at != "" {
				viol = fmt.Sprintf("the library panicked: %v (at %s)", r, at)
				return
			}
			panic(r)
		}
	}()
	w, err := sp.Build(path)
	if err != nil {
		return "", "rebuild diverged: " + err.Error()
	}
	w.TrackCommits = true
	if err := w.Commit(1, false); err != nil {
		return "", "" // a state that cannot be committed is the subject of other oracles
	}
	err = w.Apply(op)
	if err == nil && w.FormerOnly == nil {
		if err = w.Commit(1, false); err == nil {
			err = OCrash(w)
		}
	}
	if err != nil {
		if v, ok := err.(*Violation); ok {
			return v.Msg, ""
		}
		return "", err.Error()
	}
	return "", ""
}

func expandState(sp Space, path []Op, wantInit bool, noTrace bool, only int, cold bool) workResp {
	var resp workResp
	w0, err := sp.Build(path)
	if err != nil {
		if v, ok := err.(*Violation); ok {
			// A violation while replaying an already-explored path: nondeterminism.
			resp.Herr = "replay of explored path diverged: " + v.Msg
		} else {
			resp.Herr = err.Error()
		}
		return resp
	}
	ops := sp.Ops(w0)
	if only == -1 {
		resp.OpsList = ops
		return resp
	}
	parentTxt := ""
	if noTrace {
		parentTxt = w0.TraceText()
	}
	if wantInit {
		txt, _ := w0.StateText()
		resp.InitKey = HashText(txt)
		if err := sp.Check(w0); err != nil {
			if v, ok := err.(*Violation); ok {
				resp.InitViol = v.Msg
			} else {
				resp.Herr = err.Error()
				return resp
			}
		}
	}
	for opi, op := range ops {
		if only > 0 && opi != only-1 {
			continue
		}
		w, err := sp.Build(path)
		if err != nil {
			resp.Herr = "rebuild diverged: " + err.Error()
			return resp
		}
		resp.OpsRun += len(path) + 1
		s := succ{Op: op}
		s.Key, err = stepAndCheck(sp, w, op, noTrace, parentTxt)
		s.Term = w.FormerOnly != nil
		s.Shape = w.lastShape
		s.Inner = w.InnerEvals
		if err != nil {
			if v, ok := err.(*Violation); ok {
				s.Viol = v.Msg
			} else {
				s.Herr = err.Error()
			}
		} else if cold {
			resp.OpsRun += len(path) + 1
			if v, h := coldOp(sp, path, op); h != "" {
				s.Herr = h
			} else if v != "" {
				s.Viol = "with a commit placed before the last operation: " + v
			}
		}
		resp.Succs = append(resp.Succs, s)
	}
	return resp
}

// WorkerMain serves expansion requests on stdin/stdout (one JSON document per line).
func WorkerMain() {
	runtime.GOMAXPROCS(1)
	in := bufio.NewReaderSize(os.Stdin, 1<<20)
	out := bufio.NewWriter(os.Stdout)
	enc := json.NewEncoder(out)
	var cur Space
	var curName string
	for {
		line, err := in.ReadBytes('\n')
		if len(line) > 0 {
			var req struct {
				workReq
				Init bool            `json:"init"`
				Task string          `json:"task,omitempty"`
				Arg  json.RawMessage `json:"arg,omitempty"`
			}
			if e := json.Unmarshal(line, &req); e != nil {
				fmt.Fprintln(os.Stderr, "worker: bad request:", e)
				os.Exit(3)
			}
			if req.Task != "" {
				h, ok := taskHandlers[req.Task]
				var tr TaskResult
				if !ok {
					tr.Herr = "unknown task " + req.Task
				} else {
					func() {
						defer func() {
							if r := recover(); r != nil {
								if at := libraryPanicSite(debug.Stack()); at != "" {
									// the code under test panicked on an input the task built through the public API
									tr = TaskResult{Evals: 1, Viols: []string{fmt.Sprintf("task %s %s: the library panicked: %v (at %s)", req.Task, string(req.Arg), r, at)}}
								} else {
									tr.Herr = fmt.Sprintf("task panicked: %v", r)
								}
							}
						}()
						tr = h(req.Arg)
					}()
				}
				if e := enc.Encode(workResp{Task: &tr}); e != nil {
					os.Exit(3)
				}
				out.Flush()
				if err != nil {
					return
				}
				continue
			}
			if cur == nil || curName != req.Spec.Name {
				cur = MakeSpace(req.Spec)
				curName = req.Spec.Name
			}
			resp := expandState(cur, req.Path, req.Init, req.Spec.Has("notrace"), req.Only, req.Spec.Has("coldop"))
			if e := enc.Encode(resp); e != nil {
				os.Exit(3)
			}
			out.Flush()
		}
		if err != nil {
			return
		}
	}
}

type workerProc struct {
	cmd *exec.Cmd
	in  io.WriteCloser
	out *bufio.Reader
}

func startWorker() (*workerProc, error) {
	exe, err := os.Executable()
	if err != nil {
		return nil, err
	}
	cmd := exec.Command(exe, "__worker")
	cmd.Env = append(os.Environ(), "GOMAXPROCS=1")
	cmd.Stderr = os.Stderr
	in, err := cmd.StdinPipe()
	if err != nil {
		return nil, err
	}
	outp, err := cmd.StdoutPipe()
	if err != nil {
		return nil, err
	}
	if err := cmd.Start(); err != nil {
		return nil, err
	}
	return &workerProc{cmd: cmd, in: in, out: bufio.NewReaderSize(outp, 1<<20)}, nil
}

// An expansion request normally costs its worker milliseconds of CPU time (seconds for the heaviest oracles).  A
// request that has consumed hangCPU seconds of CPU time (not wall-clock time: machine load does not count) is
// treated as "the code under test does not return": the worker is killed and the operation is identified by
// probing the successors one at a time (probeCPU each).
var (
	hangCPU  = envSeconds("VERIF_HANG_CPU", 240)
	probeCPU = envSeconds("VERIF_PROBE_CPU", 90)
)

func envSeconds(name string, def float64) float64 {
	if v := os.Getenv(name); v != "" {
		var f float64
		if _, err := fmt.Sscanf(v, "%g", &f); err == nil && f > 0 {
			return f
		}
	}
	return def
}

// cpuSeconds is the CPU time (user + system) consumed so far by process pid (0 if it cannot be read).
func cpuSeconds(pid int) float64 {
	b, err := os.ReadFile(fmt.Sprintf("/proc/%d/stat", pid))
	if err != nil {
		return 0
	}
	txt := string(b)
	k := strings.LastIndex(txt, ")")
	if k < 0 {
		return 0
	}
	f := strings.Fields(txt[k+1:])
	if len(f) < 13 {
		return 0
	}
	var ut, stt float64
	fmt.Sscanf(f[11], "%g", &ut)
	fmt.Sscanf(f[12], "%g", &stt)
	return (ut + stt) / 100
}

var maxExpandCPU struct {
	sync.Mutex
	v float64
}

func (p *workerProc) call(spec Spec, path []Op, init bool) (workResp, error) {
	resp, hung, err := p.callOnly(spec, path, init, 0, hangCPU)
	if err == nil && hung {
		err = errHung
	}
	return resp, err
}

var errHung = fmt.Errorf("expansion did not return")

// callOnly sends one expansion request; hung reports that the worker used more than limit seconds of CPU time on it
// and was killed (the caller must restart it).
func (p *workerProc) callOnly(spec Spec, path []Op, init bool, only int, limit float64) (workResp, bool, error) {
	req := struct {
		workReq
		Init bool `json:"init"`
	}{workReq{spec, path, only}, init}
	b, _ := json.Marshal(req)
	b = append(b, '\n')
	pid := p.cmd.Process.Pid
	cpu0 := cpuSeconds(pid)
	if _, err := p.in.Write(b); err != nil {
		return workResp{}, false, err
	}
	type rd struct {
		line []byte
		err  error
	}
	ch := make(chan rd, 1)
	go func() {
		line, err := p.out.ReadBytes('\n')
		ch <- rd{line, err}
	}()
	tick := time.NewTicker(3 * time.Second)
	defer tick.Stop()
	var r rd
wait:
	for {
		select {
		case r = <-ch:
			break wait
		case <-tick.C:
			// the limit adapts to what requests of this run are known to cost: never below the configured value, and
			// never below 20x the costliest request completed so far
			maxExpandCPU.Lock()
			lim := limit
			if 20*maxExpandCPU.v > lim {
				lim = 20 * maxExpandCPU.v
			}
			maxExpandCPU.Unlock()
			if used := cpuSeconds(pid) - cpu0; used > lim {
				p.cmd.Process.Kill()
				<-ch
				p.in.Close()
				p.cmd.Wait()
				return workResp{}, true, nil
			}
		}
	}
	if used := cpuSeconds(pid) - cpu0; used > 0 {
		maxExpandCPU.Lock()
		if used > maxExpandCPU.v {
			maxExpandCPU.v = used
		}
		maxExpandCPU.Unlock()
	}
	if r.err != nil {
		return workResp{}, false, fmt.Errorf("worker died: %w", r.err)
	}
	var resp workResp
	if err := json.Unmarshal(r.line, &resp); err != nil {
		return workResp{}, false, err
	}
	return resp, false, nil
}

// restart replaces a killed worker process by a fresh one (same pool slot).
func (p *workerProc) restart() error {
	n, err := startWorker()
	if err != nil {
		return err
	}
	*p = *n
	return nil
}

// findHangingOp re-expands the state reached by path one successor at a time and returns the first operation whose
// execution (or judging) uses more than probeCPU seconds of CPU time.
func findHangingOp(wp *workerProc, spec Spec, path []Op) (*Op, error) {
	lst, hung, err := wp.callOnly(spec, path, false, -1, probeCPU)
	if err != nil {
		return nil, err
	}
	if hung {
		if e := wp.restart(); e != nil {
			return nil, e
		}
		return nil, nil // rebuilding the state itself does not return
	}
	for i := range lst.OpsList {
		_, hung, err := wp.callOnly(spec, path, false, i+1, probeCPU)
		if err != nil {
			return nil, err
		}
		if hung {
			if e := wp.restart(); e != nil {
				return nil, e
			}
			op := lst.OpsList[i]
			return &op, nil
		}
	}
	return nil, fmt.Errorf("the expansion of [%s] used more than %.0f s of CPU time but each successor alone returns", OpsString(path), hangCPU)
}

func (p *workerProc) stop() {
	p.in.Close()
	p.cmd.Wait()
}

// ---- coordinator -------------------------------------------------------------------------

// Found is a violation with the history that produces it.
type Found struct {
	Spec Spec   `json:"spec"`
	Path []Op   `json:"path"`
	Msg  string `json:"msg"`
	// Kind/Data describe how to re-execute violations that are not operation histories
	Kind string `json:"kind,omitempty"`
	Data any    `json:"data,omitempty"`
}

// Stats are the counters reported in the evidence file.
type Stats struct {
	States      int
	Transitions int
	OpsRun      int
	MaxDepth    int
	Exhaustive  bool
	CapHit      string
	Outcomes    map[string]int // distinct observed outcome classes
	Samples     []string
	Deepest     []Op
	Shapes      map[string]int // states per coarse structural class
	Wall        float64
	Inner       int    // evaluations made inside state oracles, all transitions
	InnerNew    int    // … on transitions that discovered a new canonical state
	Paths       [][]Op // one history per distinct state (only with Extra["collect"])
}

func (s *Stats) Add(o Stats) {
	s.States += o.States
	s.Transitions += o.Transitions
	s.OpsRun += o.OpsRun
	s.Inner += o.Inner
	s.InnerNew += o.InnerNew
	if o.MaxDepth > s.MaxDepth {
		s.MaxDepth = o.MaxDepth
	}
	if !o.Exhaustive {
		s.Exhaustive = false
		if s.CapHit == "" {
			s.CapHit = o.CapHit
		}
	}
	for k, v := range o.Shapes {
		if s.Shapes == nil {
			s.Shapes = map[string]int{}
		}
		s.Shapes[k] += v
	}
	for _, x := range o.Samples {
		if len(s.Samples) < 12 {
			s.Samples = append(s.Samples, x)
		}
	}
	s.Wall += o.Wall
}

type Pool struct {
	workers []*workerProc
	free    chan *workerProc
}

func NewPool(n int) (*Pool, error) {
	p := &Pool{free: make(chan *workerProc, n)}
	for i := 0; i < n; i++ {
		w, err := startWorker()
		if err != nil {
			return nil, err
		}
		p.workers = append(p.workers, w)
		p.free <- w
	}
	return p, nil
}

func (p *Pool) Close() {
	for _, w := range p.workers {
		w.stop()
	}
}

func NumWorkers() int {
	n := runtime.NumCPU()
	if n > 16 {
		n = 16
	}
	if n < 1 {
		n = 1
	}
	return n
}

// Explore runs a level-synchronous BFS of spec's space over the worker pool.
// deadline (zero = none) ends the search with Exhaustive=false.
func Explore(pool *Pool, spec Spec, deadline time.Time, maxViol int) (Stats, []Found, error) {
	start := time.Now()
	st := Stats{Exhaustive: true, Outcomes: map[string]int{}}
	var found []Found
	seen := map[string]bool{}
	type item struct{ path []Op }
	frontier := []item{{nil}}
	first := true
	depth := 0
	var herr error
	var hangSeen atomic.Bool
	for len(frontier) > 0 && herr == nil {
		if spec.Depth > 0 && depth >= spec.Depth {
			break
		}
		type result struct {
			it   item
			resp workResp
			err  error
		}
		results := make([]result, len(frontier))
		var wg sync.WaitGroup
		stopped := false
		for i := range frontier {
			if !deadline.IsZero() && time.Now().After(deadline) || hangSeen.Load() {
				stopped = true
				results = results[:i]
				break
			}
			wp := <-pool.free
			wg.Add(1)
			go func(i int, wp *workerProc, init bool) {
				defer wg.Done()
				resp, err := wp.call(spec, frontier[i].path, init)
				if err == errHung {
					hangSeen.Store(true) // no further states of this space are dispatched
					err = wp.restart()
					var op *Op
					if err == nil {
						op, err = findHangingOp(wp, spec, frontier[i].path)
					}
					if err == nil {
						hp := append([]Op{}, frontier[i].path...)
						if op != nil {
							hp = append(hp, *op)
						}
						resp = workResp{Hang: hp}
					}
				}
				results[i] = result{frontier[i], resp, err}
				pool.free <- wp
			}(i, wp, first && i == 0)
		}
		wg.Wait()
		var next []item
		for _, r := range results {
			if r.err != nil {
				herr = r.err
				break
			}
			if r.resp.Herr != "" {
				herr = fmt.Errorf("harness error at [%s]: %s", OpsString(r.it.path), r.resp.Herr)
				break
			}
			if r.resp.Hang != nil {
				if len(found) < maxViol {
					msg := fmt.Sprintf("the last operation of the history (or the reads that judge the state after it) does not return: more than %.0f s of CPU time in one call, where the whole history normally takes milliseconds", probeCPU)
					if len(r.resp.Hang) == len(r.it.path) {
						msg = fmt.Sprintf("rebuilding this state (the space's scripted start state followed by the history) does not return: more than %.0f s of CPU time, where it normally takes milliseconds", probeCPU)
					}
					found = append(found, Found{Spec: spec, Path: r.resp.Hang, Kind: "hang", Msg: msg})
				}
				continue
			}
			if r.resp.InitKey != "" {
				seen[r.resp.InitKey] = true
				st.States++
				if r.resp.InitViol != "" {
					found = append(found, Found{Spec: spec, Path: r.it.path, Msg: r.resp.InitViol})
				}
			}
			st.OpsRun += r.resp.OpsRun
			for _, s := range r.resp.Succs {
				st.Transitions++
				st.Inner += s.Inner
				p := append(append([]Op{}, r.it.path...), s.Op)
				if s.Herr != "" {
					herr = fmt.Errorf("harness error at [%s]: %s", OpsString(p), s.Herr)
					break
				}
				if s.Viol != "" {
					if len(found) < maxViol {
						found = append(found, Found{Spec: spec, Path: p, Msg: s.Viol})
					}
					continue // do not explore beyond a violating state
				}
				if !seen[s.Key] || spec.Extra["nodedup"] == 1 {
					// nodedup: every history up to the depth bound is extended, whatever state it reaches;
					// this also separates states that differ only in hidden state the canonical key does
					// not know about (e.g. something a changed library captures in a closure)
					seen[s.Key] = true
					st.States++
					st.InnerNew += s.Inner
					if spec.Extra["collect"] == 1 {
						st.Paths = append(st.Paths, p)
					}
					if st.Shapes == nil {
						st.Shapes = map[string]int{}
					}
					st.Shapes[s.Shape]++
					if s.Term {
						continue
					}
					next = append(next, item{p})
					if len(p) > len(st.Deepest) {
						st.Deepest = p
					}
					if len(st.Samples) < 4 || (st.States%997 == 0 && len(st.Samples) < 10) {
						st.Samples = append(st.Samples, spec.Name+": "+OpsString(p))
					}
				}
			}
		}
		first = false
		depth++
		if len(next) > 0 {
			st.MaxDepth = depth
		}
		if stopped {
			st.Exhaustive = false
			st.CapHit = fmt.Sprintf("deadline reached in %s at depth %d (all shallower levels complete)", spec.Name, depth)
			if hangSeen.Load() {
				st.CapHit = fmt.Sprintf("stopped in %s at depth %d after an operation that does not return", spec.Name, depth)
			}
			break
		}
		if hangSeen.Load() {
			st.Exhaustive = false
			st.CapHit = fmt.Sprintf("stopped in %s at depth %d after an operation that does not return", spec.Name, depth)
			break
		}
		if len(found) >= maxViol {
			st.Exhaustive = false
			st.CapHit = "stopped after violations"
			break
		}
		// deterministic order of the next frontier
		sort.SliceStable(next, func(a, b int) bool { return len(next[a].path) < len(next[b].path) })
		frontier = next
	}
	if spec.Depth > 0 && len(frontier) > 0 && herr == nil && st.Exhaustive {
		// depth-bounded: complete up to Depth, not a closure
		st.CapHit = fmt.Sprintf("depth bound %d (complete up to it)", spec.Depth)
	}
	st.Wall = time.Since(start).Seconds()
	return st, found, herr
}

// stepAndCheck applies op to w (built from the prefix), computes the successor key and runs the
// oracles; with noTrace a rejected request must leave the canonical state text unchanged.
func stepAndCheck(sp Space, w *World, op Op, noTrace bool, parentTxt string) (key string, err error) {
	defer func() {
		// an oracle drives the library too (iterators, health check, reopen, commits): a panic raised inside library
		// code is a verdict on the library, any other panic is the harness's own and stays fatal
		if r := recover(); r != nil {
			at := libraryPanicSite(debug.Stack())
			if at == "" {
				panic(r)
			}
			err = violf("the library panicked while the state after %s was judged: %v (at %s)", op, r, at)
		}
	}()
	return stepAndCheck1(sp, w, op, noTrace, parentTxt)
}

func stepAndCheck1(sp Space, w *World, op Op, noTrace bool, parentTxt string) (string, error) {
	err := w.Apply(op)
	if err != nil {
		return "", err
	}
	txt, _ := w.StateText()
	key := HashText(txt)
	w.lastShape = shapeOf(txt)
	if noTrace && strings.HasPrefix(w.LastRet, "err:") && w.TraceText() != parentTxt {
		txt = w.TraceText()
		return key, violf("rejected request %s (%s) left a trace: state before\n%s\nstate after\n%s", op, w.LastRet, parentTxt, txt)
	}
	return key, sp.Check(w)
}

func (p *workerProc) callTask(name string, arg any) (TaskResult, error) {
	ab, _ := json.Marshal(arg)
	req := map[string]any{"task": name, "arg": json.RawMessage(ab), "spec": Spec{}, "path": []Op{}}
	b, _ := json.Marshal(req)
	b = append(b, '\n')
	if _, err := p.in.Write(b); err != nil {
		return TaskResult{}, err
	}
	line, err := p.out.ReadBytes('\n')
	if err != nil {
		return TaskResult{}, fmt.Errorf("worker died: %w", err)
	}
	var resp workResp
	if err := json.Unmarshal(line, &resp); err != nil {
		return TaskResult{}, err
	}
	if resp.Task == nil {
		return TaskResult{}, fmt.Errorf("worker returned no task result")
	}
	return *resp.Task, nil
}

// RunTasks distributes task arguments over the pool and returns results in order.
func (p *Pool) RunTasks(name string, args []any) ([]TaskResult, error) {
	results := make([]TaskResult, len(args))
	errs := make([]error, len(args))
	var wg sync.WaitGroup
	for i := range args {
		wp := <-p.free
		wg.Add(1)
		go func(i int, wp *workerProc) {
			defer wg.Done()
			results[i], errs[i] = wp.callTask(name, args[i])
			p.free <- wp
		}(i, wp)
	}
	wg.Wait()
	for _, e := range errs {
		if e != nil {
			return results, e
		}
	}
	return results, nil
}

// shapeOf classifies a canonical state text coarsely: tree levels of the deepest root, and which
// structural features occur (inlined children, standalone children / large values, external and
// inline collision groups, slabs decoded from the ledger or served from the cache, leaked slabs).
func shapeOf(txt string) string {
	maxDepth := 0
	var stack []bool // for every open brace: is it an index slab?
	metas := 0
	for i := 0; i < len(txt); i++ {
		switch txt[i] {
		case '{':
			isMeta := i+3 <= len(txt) && (txt[i+1:i+3] == "am" || txt[i+1:i+3] == "mm")
			stack = append(stack, isMeta)
			if isMeta {
				metas++
				if metas > maxDepth {
					maxDepth = metas
				}
			}
		case '}':
			if n := len(stack); n > 0 {
				if stack[n-1] {
					metas--
				}
				stack = stack[:n-1]
			}
		case '\n':
			stack, metas = stack[:0], 0
		}
	}
	var f []string
	f = append(f, fmt.Sprintf("levels=%d", maxDepth+1))
	for _, kv := range [][2]string{{"I{", "inlined-child"}, {"@#", "reference"}, {"{st ", "large-value-slab"}, {" X(", "external-group"}, {" G(", "inline-group"}, {"list", "digestless-list"}, {"S(", "wrapper"}, {"unreached", "leak"}} {
		if strings.Contains(txt, kv[0]) {
			f = append(f, kv[1])
		}
	}
	return strings.Join(f, "+")
}

// libraryPanicSite returns the innermost non-runtime frame of a recovered panic if that frame is code of the
// library under test (and "" if the panic was raised by the harness itself).
func libraryPanicSite(stack []byte) string {
	lines := strings.Split(string(stack), "\n")
	i := 0
	for ; i < len(lines); i++ {
		if strings.HasPrefix(lines[i], "panic(") {
			break
		}
	}
	for i += 2; i+1 < len(lines); i += 2 {
		fn := lines[i]
		if strings.HasPrefix(fn, "runtime.") || strings.HasPrefix(fn, "runtime/") || strings.HasPrefix(fn, "internal/") {
			continue
		}
		if strings.HasPrefix(fn, "github.com/onflow/atree.") || strings.HasPrefix(fn, "github.com/onflow/atree/") {
			if k := strings.LastIndex(fn, "("); k > 0 {
				fn = fn[:k] // drop the argument words (addresses differ between runs)
			}
			loc := strings.TrimSpace(lines[i+1])
			if k := strings.Index(loc, " +0x"); k > 0 {
				loc = loc[:k]
			}
			return strings.TrimSpace(fn) + " " + loc
		}
		return ""
	}
	return ""
}
