package vf

import (
	"fmt"
	"sort"

	"github.com/onflow/atree"
)

// Trajectory seeds: named scripts that grow and drain a container; every prefix of a script is a
// seed state.  Seeds are committed once, their ledger is snapshotted and every explored path
// starts from a fresh storage over a copy of the snapshot (a cold start: every slab is decoded
// from its register), so that the cost of a transition does not grow with the size of the tree.

// Script returns the operations of a named script (total length depends on nmax).
func Script(name string, nmax int) []Op {
	var ops []Op
	switch name {
	case "arr-append-lim": // append limA elements
		ops = append(ops, Op{K: "newarr"})
		for i := 0; i < nmax; i++ {
			ops = append(ops, Op{K: "append", V: "limA"})
		}
	case "arr-front-mid": // insert mid elements at the front
		ops = append(ops, Op{K: "newarr"})
		for i := 0; i < nmax; i++ {
			ops = append(ops, Op{K: "insert", I: 0, V: "mid"})
		}
	case "arr-mixed": // alternate sizes, insert in the middle
		ops = append(ops, Op{K: "newarr"})
		cls := []string{"limA", "t", "mid", "limA+", "third"}
		for i := 0; i < nmax; i++ {
			ops = append(ops, Op{K: "insert", I: uint64(i / 2), V: cls[i%len(cls)]})
		}
	case "arr-kids": // nested children (inlined and standalone) spread over a multi-level array
		ops = append(ops, Op{K: "newarr"})
		cls := []string{"limA", "A:t", "mid", "A:h,h", "t", "s:A:t", "limA", "M:t"}
		for i := 0; i < nmax; i++ {
			ops = append(ops, Op{K: "insert", I: uint64(i / 2), V: cls[i%len(cls)]})
		}
	case "map-kids": // nested children as map values, controlled digests
		ops = append(ops, Op{K: "newmap"})
		cls := []string{"limM", "A:t", "mid", "A:h,h", "t", "s:M:t", "limM", "M:t"}
		for i := 0; i < nmax; i++ {
			ops = append(ops, Op{K: "mset", Key: i, V: cls[i%len(cls)]})
		}
	case "arr-kids-compact": // same-typed composite (compact-encoded) maps, of two types, spread over every data slab of a multi-level array
		ops = append(ops, Op{K: "newarr"})
		cls := []string{"Mc:t,u5", "limA", "Mc:u5,t", "Mc9:t", "t", "Mc9:t", "mid", "A:t", "Mc:t,u5,s10"}
		for i := 0; i < nmax; i++ {
			ops = append(ops, Op{K: "insert", I: uint64(i / 2), V: cls[i%len(cls)]})
		}
	case "map-kids-compact": // the same as map values, controlled digests
		ops = append(ops, Op{K: "newmap"})
		cls := []string{"Mc:t,u5", "limM", "Mc:u5,t", "Mc9:t", "t", "Mc9:t", "mid", "A:t", "Mc:t,u5,s10"}
		for i := 0; i < nmax; i++ {
			ops = append(ops, Op{K: "mset", Key: i, V: cls[i%len(cls)]})
		}
	case "arr-drain-front": // grow to nmax/2 with limA, then remove from the front
		ops = append(ops, Op{K: "newarr"})
		h := nmax / 2
		for i := 0; i < h; i++ {
			ops = append(ops, Op{K: "append", V: "limA"})
		}
		for i := 0; i < h; i++ {
			ops = append(ops, Op{K: "remove", I: 0})
		}
	case "arr-drain-back":
		ops = append(ops, Op{K: "newarr"})
		h := nmax / 2
		for i := 0; i < h; i++ {
			ops = append(ops, Op{K: "append", V: "limA"})
		}
		for i := h - 1; i >= 0; i-- {
			ops = append(ops, Op{K: "remove", I: uint64(i)})
		}
	case "arr-drain-mid":
		ops = append(ops, Op{K: "newarr"})
		h := nmax / 2
		for i := 0; i < h; i++ {
			ops = append(ops, Op{K: "append", V: "limA"})
		}
		for i := h; i > 0; i-- {
			ops = append(ops, Op{K: "remove", I: uint64(i / 2)})
		}
	case "arr-shrink-overwrite": // grow, then overwrite with tiny values front to back
		ops = append(ops, Op{K: "newarr"})
		h := nmax / 2
		for i := 0; i < h; i++ {
			ops = append(ops, Op{K: "append", V: "limA"})
		}
		for i := 0; i < h; i++ {
			ops = append(ops, Op{K: "set", I: uint64(i), V: "t"})
		}
	case "map-grow-lim": // controlled digests: key n at digest n*1000+500
		ops = append(ops, Op{K: "newmap"})
		for i := 0; i < nmax; i++ {
			ops = append(ops, Op{K: "mset", Key: i, V: "limM"})
		}
	case "map-grow-desc": // new smallest key every time
		ops = append(ops, Op{K: "newmap"})
		for i := 0; i < nmax; i++ {
			ops = append(ops, Op{K: "mset", Key: nmax - 1 - i, V: "mid"})
		}
	case "map-coll-grow": // every third pair of neighbouring keys collides on the first level (external groups once big), ascending digests
		ops = append(ops, Op{K: "newmap"})
		for i := 0; i < nmax; i++ {
			ops = append(ops, Op{K: "mset", Key: 30000 + i, V: "limM"})
		}
	case "map-drain-front":
		ops = append(ops, Op{K: "newmap"})
		h := nmax / 2
		for i := 0; i < h; i++ {
			ops = append(ops, Op{K: "mset", Key: i, V: "limM"})
		}
		for i := 0; i < h; i++ {
			ops = append(ops, Op{K: "mremove", Key: i})
		}
	case "map-drain-back":
		ops = append(ops, Op{K: "newmap"})
		h := nmax / 2
		for i := 0; i < h; i++ {
			ops = append(ops, Op{K: "mset", Key: i, V: "limM"})
		}
		for i := h - 1; i >= 0; i-- {
			ops = append(ops, Op{K: "mremove", Key: i})
		}
	case "map-shrink-overwrite":
		ops = append(ops, Op{K: "newmap"})
		h := nmax / 2
		for i := 0; i < h; i++ {
			ops = append(ops, Op{K: "mset", Key: i, V: "limM"})
		}
		for i := 0; i < h; i++ {
			ops = append(ops, Op{K: "mset", Key: i, V: "t"})
		}
	default:
		panic("unknown script " + name)
	}
	return ops
}

// seedState is a committed seed: ledger snapshot + model.
type seedState struct {
	ledger *Ledger
	conts  []*Cont
	serial int
}

func cloneConts(conts []*Cont) []*Cont {
	m := map[*Cont]*Cont{}
	out := make([]*Cont, len(conts))
	for i, c := range conts {
		n := *c
		n.Arr, n.Map = nil, nil
		out[i] = &n
		m[c] = &n
	}
	var cv func(v MV) MV
	cv = func(v MV) MV {
		switch v := v.(type) {
		case Some:
			return Some{cv(v.In)}
		case *Cont:
			return m[v]
		}
		return v
	}
	for _, n := range out {
		if n.Parent != nil {
			n.Parent = m[n.Parent]
		}
		n.Elems = append([]MV(nil), n.Elems...)
		for i := range n.Elems {
			n.Elems[i] = cv(n.Elems[i])
		}
		n.Keys = append([]MV(nil), n.Keys...)
		n.Vals = append([]MV(nil), n.Vals...)
		for i := range n.Vals {
			n.Vals[i] = cv(n.Vals[i])
		}
	}
	return out
}

// trajSpace explores neighbourhoods of one seed state.
type trajSpace struct {
	baseSpace
	seedSt *seedState
	isMap  bool
}

func init() {
	RegisterSpace("traj", func(s Spec) Space {
		sp := &trajSpace{baseSpace: baseSpace{spec: s}}
		sp.isMap = len(s.Seed) >= 3 && s.Seed[:3] == "map"
		return sp
	})
	RegisterSpace("traj-kids", func(s Spec) Space {
		s.Oracles = append(s.Oracles, "kids")
		sp := &trajSpace{baseSpace: baseSpace{spec: s}}
		sp.isMap = len(s.Seed) >= 3 && s.Seed[:3] == "map"
		return sp
	})
}

func (t *trajSpace) controlled() bool { return t.isMap }

func (t *trajSpace) freshWorld() *World {
	w := t.newWorld()
	if t.controlled() && w.Digests == nil {
		w.Digests = NewDigestTable()
		// keys 10000+j sit exactly between key j-1 and key j
		w.KeyOf = func(n int) MV { return Scalar{uint64(n)} }
	}
	return w
}

func trajDigests(d *DigestTable, upto int) {
	for j := 0; j <= upto+1; j++ {
		n := uint64(10000 + j)
		d.Table[n] = [4]uint64{uint64(j) * 1000, n*7 + 1, n*11 + 2, n*13 + 3}
	}
	// map-coll-grow: key 30000+i sits at first-level digest (i - i%6/1 …): keys 6j and 6j+1 share it, second level differs
	for i := 0; i <= upto+1; i++ {
		n := uint64(30000 + i)
		l0 := uint64(i)
		if i%6 == 1 {
			l0 = uint64(i - 1)
		}
		d.Table[n] = [4]uint64{l0*1000 + 7, uint64(i) + 1, n*11 + 2, n*13 + 3}
		// 40000+i: a key placed just below key 30000+i (fills the leaf that holds it)
		d.Table[uint64(40000+i)] = [4]uint64{l0*1000 + 3, uint64(i) + 1, n*11 + 5, n*13 + 5}
	}
	// the two ends of the digest range: below every other key / above every other key
	d.Table[20000] = [4]uint64{0, 0, 0, 0}
	d.Table[20001] = [4]uint64{^uint64(0), ^uint64(0), ^uint64(0), ^uint64(0)}
}

func (t *trajSpace) ensureSeed() error {
	if t.seedSt != nil {
		return nil
	}
	w := t.freshWorld()
	if w.Digests != nil {
		trajDigests(w.Digests, t.spec.Extra["nmax"])
	}
	script := Script(t.spec.Seed, t.spec.Extra["nmax"])
	n := t.spec.SeedN
	if n > len(script) {
		n = len(script)
	}
	for _, op := range script[:n] {
		if err := w.Apply(op); err != nil {
			return fmt.Errorf("seed %s[%d] op %s: %w", t.spec.Seed, n, op, err)
		}
	}
	if err := w.Commit(1, false); err != nil {
		return err
	}
	t.seedSt = &seedState{ledger: w.Ledger.Snapshot(), conts: cloneConts(w.Conts), serial: w.Serial}
	return nil
}

func (t *trajSpace) Build(path []Op) (*World, error) {
	if err := t.ensureSeed(); err != nil {
		return nil, err
	}
	w := t.freshWorld()
	if w.Digests != nil {
		trajDigests(w.Digests, t.spec.Extra["nmax"])
	}
	w.Ledger = t.seedSt.ledger.Snapshot()
	w.St = NewStorage(w.Ledger)
	w.Conts = cloneConts(t.seedSt.conts)
	w.Serial = t.seedSt.serial
	if t.spec.Has("crash") {
		w.TrackCommits = true
		w.KeyStorage = true
		w.CommittedConts = cloneConts(w.Conts)
		w.CommittedLedger = w.Ledger.Snapshot()
	}
	if t.spec.Has("twin") || t.spec.Has("faults") {
		w.KeyStorage = true
		w.TwinBase = func() (*World, error) { return t.Build(nil) }
	}
	if t.spec.Has("kids") {
		// handles to every nested child near a leaf boundary are obtained up front (by lookup), so
		// that depth-2 paths are "restructure the parent, then mutate the child through a handle
		// obtained before the restructuring"
		for _, ch := range t.kidsNear(w) {
			if err := w.Reget(ch); err != nil {
				return nil, err
			}
		}
	}
	for _, op := range path {
		if err := w.Apply(op); err != nil {
			return nil, err
		}
	}
	return w, nil
}

// kidsNear lists the nested children of c0 that sit within two positions of a leaf boundary.
func (t *trajSpace) kidsNear(w *World) []*Cont {
	c := w.Conts[0]
	if err := w.EnsureHandle(c); err != nil {
		return nil
	}
	starts := leafStarts(w)
	n := c.Count()
	near := map[int]bool{0: true, n - 1: true}
	for _, s := range starts {
		for d := -2; d <= 2; d++ {
			near[s+d] = true
		}
	}
	vals := c.Elems
	var order []int
	if c.IsMap {
		vals = c.Vals
		order, _ = w.canonMapOrder(c)
	} else {
		for i := 0; i < n; i++ {
			order = append(order, i)
		}
	}
	var out []*Cont
	for pos, idx := range order {
		if !near[pos] {
			continue
		}
		if u, _ := Unwrap(vals[idx]); u != nil {
			if ch, ok := u.(*Cont); ok && !ch.Dead {
				out = append(out, ch)
			}
		}
	}
	return out
}

// leafBounds returns, for the root container c0, the element index at which every leaf starts
// (arrays) or the key numbers that are first/last in every leaf (maps), from the independent walk.
func leafStarts(w *World) []int {
	wk := w.DoWalk()
	var starts []int
	pos := 0
	var visit func(r *SlabRec)
	visit = func(r *SlabRec) {
		switch r.Info.Kind {
		case "arrayMeta", "mapMeta":
			for _, ch := range r.Info.Children {
				if cr := wk.ByID[ch.SlabID]; cr != nil {
					visit(cr)
				}
			}
		case "arrayData":
			starts = append(starts, pos)
			pos += len(r.Info.Elements)
		case "mapData":
			starts = append(starts, pos)
			pos += len(r.Info.MapElems)
		}
	}
	if len(wk.Recs) > 0 {
		visit(&wk.Recs[0])
	}
	return starts
}

func (t *trajSpace) Ops(w *World) []Op {
	ops := t.allOps(w)
	if !t.spec.Has("crash") && !t.spec.Has("twin") {
		return ops
	}
	// crash / cache-transparency spaces: lookups cannot change what a commit writes; skip them
	out := ops[:0]
	for _, o := range ops {
		if o.K == "get" || o.K == "mget" || o.K == "mhas" {
			continue
		}
		out = append(out, o)
	}
	return out
}

// kidsOps: operations of the "kids" mode: handles to nested children near leaf boundaries are obtained
// (reget), the parent is restructured at the boundaries, the children are mutated through the handles.
func (t *trajSpace) kidsOps(w *World) []Op {
	c := w.Conts[0]
	if err := w.EnsureHandle(c); err != nil {
		return nil
	}
	starts := leafStarts(w)
	n := c.Count()
	near := map[int]bool{}
	for _, s := range starts {
		for d := -2; d <= 2; d++ {
			if s+d >= 0 && s+d < n {
				near[s+d] = true
			}
		}
	}
	near[0], near[n-1] = true, true
	var ops []Op
	vals := c.Elems
	var order []int
	if c.IsMap {
		vals = c.Vals
		order, _ = w.canonMapOrder(c)
	} else {
		for i := 0; i < n; i++ {
			order = append(order, i)
		}
	}
	// children whose handle was obtained up front (they may have moved since)
	for _, idx := range order {
		u, _ := Unwrap(vals[idx])
		ch, ok := u.(*Cont)
		if !ok || ch.Dead || (ch.Arr == nil && ch.Map == nil) {
			continue
		}
		if ch.IsMap {
			ops = append(ops, Op{K: "mset", C: ch.Serial, Key: 60, V: "h"}, Op{K: "mset", C: ch.Serial, Key: 61, V: "h"})
			if ch.Count() > 0 {
				ops = append(ops, Op{K: "pop", C: ch.Serial})
			}
		} else {
			ops = append(ops, Op{K: "append", C: ch.Serial, V: "h"}, Op{K: "append", C: ch.Serial, V: "t"})
			if ch.Count() > 0 {
				ops = append(ops, Op{K: "remove", C: ch.Serial, I: 0}, Op{K: "pop", C: ch.Serial})
			}
		}
	}
	// parent restructuring at the boundaries
	for pos := range near {
		if c.IsMap {
			k := int(keyNumber(c.Keys[order[pos]]))
			ops = append(ops, Op{K: "mremove", C: 0, Key: k})
			if k < 10000 {
				ops = append(ops, Op{K: "mset", C: 0, Key: 10000 + k, V: "limM"})
			}
		} else {
			ops = append(ops, Op{K: "insert", C: 0, I: uint64(pos), V: "limA"}, Op{K: "remove", C: 0, I: uint64(pos)})
		}
	}
	sortOps(ops)
	ops = append(ops, t.eventOps()...)
	return ops
}

func sortOps(ops []Op) {
	sort.SliceStable(ops, func(a, b int) bool { return ops[a].String() < ops[b].String() })
}

func (t *trajSpace) allOps(w *World) []Op {
	if t.spec.Has("kids") {
		return t.kidsOps(w)
	}
	c := w.Conts[0]
	if err := w.EnsureHandle(c); err != nil {
		return nil
	}
	starts := leafStarts(w)
	n := c.Count()
	idxSet := map[int]bool{}
	add := func(i int) {
		if i >= 0 && i <= n {
			idxSet[i] = true
		}
	}
	add(0)
	add(1)
	add(n / 2)
	add(n - 1)
	add(n)
	for _, s := range starts {
		add(s - 1)
		add(s)
		add(s + 1)
	}
	var idx []int
	for i := range idxSet {
		idx = append(idx, i)
	}
	sort.Ints(idx)
	var ops []Op
	if !t.isMap {
		for _, i := range idx {
			for _, cl := range t.spec.Classes {
				ops = append(ops, Op{K: "insert", C: 0, I: uint64(i), V: cl})
			}
			if i < n {
				for _, cl := range t.spec.Classes {
					ops = append(ops, Op{K: "set", C: 0, I: uint64(i), V: cl})
				}
				ops = append(ops, Op{K: "remove", C: 0, I: uint64(i)})
				ops = append(ops, Op{K: "get", C: 0, I: uint64(i)})
			}
		}
		if t.spec.Has("oob") {
			for _, i := range oobIndexes(uint64(n)) {
				ops = append(ops, Op{K: "get", C: 0, I: i}, Op{K: "remove", C: 0, I: i})
			}
		}
		if n > 0 && t.spec.Has("pop") {
			ops = append(ops, Op{K: "pop", C: 0})
		}
		if c.TypeID == 42 {
			ops = append(ops, Op{K: "settype", C: 0, N: 43})
		}
		ops = append(ops, t.eventOps()...)
		return ops
	}
	// maps: positions refer to the digest order; present keys sorted by digest
	present := make([]int, 0, n)
	for _, k := range c.Keys {
		present = append(present, int(keyNumber(k)))
	}
	sort.Slice(present, func(a, b int) bool {
		return w.Digests.digestsOf(uint64(present[a]))[0] < w.Digests.digestsOf(uint64(present[b]))[0]
	})
	for _, i := range idx {
		if i < n {
			k := present[i]
			for _, cl := range t.spec.Classes {
				ops = append(ops, Op{K: "mset", C: 0, Key: k, V: cl})
			}
			ops = append(ops, Op{K: "mremove", C: 0, Key: k}, Op{K: "mget", C: 0, Key: k})
			// a new key just below present[i]
			if k < 10000 {
				nk := 10000 + k
				has := false
				for _, p := range present {
					if p == nk {
						has = true
					}
				}
				if !has {
					for _, cl := range t.spec.Classes {
						ops = append(ops, Op{K: "mset", C: 0, Key: nk, V: cl})
					}
					ops = append(ops, Op{K: "mget", C: 0, Key: nk}, Op{K: "mremove", C: 0, Key: nk})
				}
			}
		} else {
			// above the last key
			nk := 9000 + n
			for _, cl := range t.spec.Classes {
				ops = append(ops, Op{K: "mset", C: 0, Key: nk, V: cl})
			}
			ops = append(ops, Op{K: "mget", C: 0, Key: nk})
		}
	}
	// keys at the two ends of the digest range (digest 0 and 2^64-1 on every level)
	for _, k := range []int{20000, 20001} {
		ops = append(ops, Op{K: "mset", C: 0, Key: k, V: t.spec.Classes[0]}, Op{K: "mget", C: 0, Key: k}, Op{K: "mhas", C: 0, Key: k}, Op{K: "mremove", C: 0, Key: k})
	}
	if t.spec.Extra["allkeys"] == 1 {
		ops = ops[:0] // only the operations below (the generic boundary alphabet is explored on the other scripts)
		// colliding-growth script: every member of every collision pair is removed / shrunk, and the leaves that
		// hold a pair can be filled up first with a new limit-sized key placed right below the pair or its neighbour
		has := map[int]bool{}
		for _, k := range present {
			has[k] = true
		}
		for _, k := range present {
			if k < 30000 || k >= 40000 {
				continue
			}
			i := k - 30000
			if i%6 <= 1 {
				ops = append(ops, Op{K: "mremove", C: 0, Key: k}, Op{K: "mset", C: 0, Key: k, V: "t"})
			}
			if (i%6 == 0 || i%6 == 2) && !has[40000+i] {
				ops = append(ops, Op{K: "mset", C: 0, Key: 40000 + i, V: "limM"})
			}
		}
	}
	if n > 0 && t.spec.Has("pop") {
		ops = append(ops, Op{K: "pop", C: 0})
	}
	if c.TypeID == 42 {
		// the root of a multi-level tree is an index slab: it carries the type
		ops = append(ops, Op{K: "settype", C: 0, N: 43})
	}
	ops = append(ops, t.eventOps()...)
	return ops
}

func (t *trajSpace) eventOps() []Op {
	var ops []Op
	for _, ev := range t.spec.Oracles {
		switch ev {
		case "ev:commit":
			ops = append(ops, Op{K: "commit", N: 1}, Op{K: "commit", N: 3}, Op{K: "ncommit", N: 2})
		case "ev:commit1":
			ops = append(ops, Op{K: "commit", N: 1})
		case "ev:ncommit":
			ops = append(ops, Op{K: "ncommit", N: 2})
		case "ev:cdrop":
			ops = append(ops, Op{K: "cdrop"})
		case "ev:creopen":
			ops = append(ops, Op{K: "creopen"})
		}
	}
	return ops
}

// TrajSpecs builds one spec per seed state of a script.
func TrajSpecs(prop, script string, nmax, from, to, step, depth int, T uint32, classes, oracles []string) []Spec {
	var out []Spec
	total := len(Script(script, nmax))
	if to > total {
		to = total
	}
	for n := from; n <= to; n += step {
		out = append(out, Spec{
			Name: fmt.Sprintf("traj-%s-T%d-n%d-d%d", script, T, n, depth), Prop: prop, Kind: "traj", T: T,
			Seed: script, SeedN: n, Depth: depth, Classes: classes, Oracles: oracles,
			Extra: map[string]int{"nmax": nmax},
		})
	}
	return out
}

var _ = atree.SlabIDUndefined
