package vf

import (
	"encoding/json"
	"fmt"

	"github.com/onflow/atree"
	tu "github.com/onflow/atree/test_utils"
)

// c20empty: storages with ZERO roots are healthy storages too (a fresh ledger; a ledger whose only container was
// removed again, before and after the removal was committed).  The health check must accept them with an expected
// root count of 0 and reject each of them after an unreferenced slab was added.

func init() { RegisterTask("c20empty", c20EmptyTask) }

func c20EmptyTask(raw json.RawMessage) TaskResult {
	var res TaskResult
	var a struct {
		Variant int `json:"variant"`
	}
	if err := json.Unmarshal(raw, &a); err != nil {
		res.Herr = err.Error()
		return res
	}
	atree.VerifSetThreshold(256)
	L := NewLedger()
	st := NewStorage(L)
	what := "a fresh, empty storage"
	build := func() (*atree.Array, error) {
		arr, err := atree.NewArray(st, DefaultAddr, tu.NewSimpleTypeInfo(42))
		if err != nil {
			return nil, err
		}
		for _, n := range []int{3, 300, 3} { // the middle element lives in a slab of its own
			if err := arr.Append(tu.NewStringValue(string(make([]byte, n)))); err != nil {
				return nil, err
			}
		}
		return arr, nil
	}
	dispose := func(arr *atree.Array) error {
		err := arr.PopIterate(func(s atree.Storable) {
			if id, ok := s.(atree.SlabIDStorable); ok {
				_ = st.Remove(atree.SlabID(id))
			}
		})
		if err != nil {
			return err
		}
		return st.Remove(arr.SlabID())
	}
	var err error
	switch a.Variant {
	case 0:
	case 1, 2, 3:
		var arr *atree.Array
		arr, err = build()
		if err == nil && a.Variant >= 2 {
			err = st.FastCommit(1)
		}
		if err == nil {
			err = dispose(arr)
		}
		if err == nil && a.Variant != 3 {
			err = st.FastCommit(1)
		}
		what = [...]string{"", "a storage whose only container was created and removed again, then committed",
			"a storage whose only container was committed, removed, and the removal committed",
			"a storage whose only committed container was removed (removal not committed yet)"}[a.Variant]
	default:
		res.Herr = "unknown variant"
		return res
	}
	if err != nil {
		res.Herr = "c20empty: " + err.Error()
		return res
	}
	judge := func(name string, s atree.SlabStorage, wantOK bool, corruption string) {
		res.Evals++
		for _, exp := range []int{0, -1} {
			if !wantOK && exp == -1 {
				continue // the root count is not judged when the caller passes -1
			}
			roots, err := atree.CheckStorageHealth(s, exp)
			switch {
			case wantOK && err != nil:
				res.Viols = append(res.Viols, fmt.Sprintf("%s (%s): CheckStorageHealth(expected roots %d) fails on a healthy storage: %v", what, name, exp, err))
			case wantOK && len(roots) != 0:
				res.Viols = append(res.Viols, fmt.Sprintf("%s (%s): CheckStorageHealth returns %d roots, want none", what, name, len(roots)))
			case !wantOK && err == nil:
				res.Viols = append(res.Viols, fmt.Sprintf("%s (%s): CheckStorageHealth(expected roots 0) succeeds although %s", what, name, corruption))
			}
		}
	}
	// healthy: the storage that ran the history, a fresh storage with everything loaded, a basic storage
	judge("the storage that ran the history", st, true, "")
	if a.Variant != 3 {
		fresh, err := loadAll(L.Snapshot())
		if err != nil {
			res.Herr = "c20empty: " + err.Error()
			return res
		}
		judge("fresh storage, all registers loaded", fresh, true, "")
		bs, err := basicFrom(L.Snapshot())
		if err != nil {
			res.Herr = "c20empty: " + err.Error()
			return res
		}
		judge("basic storage", bs, true, "")
	}
	// corruptions: one unreferenced slab of either kind, uncommitted and committed
	for kind := 0; kind < 2; kind++ {
		for _, committed := range []bool{false, true} {
			if a.Variant == 3 && committed {
				continue
			}
			var s2 *atree.PersistentSlabStorage
			var l2 *Ledger
			if a.Variant == 3 {
				s2, l2 = st, L // (last use of st: the stray slab goes into the same write set as the pending removal)
				if kind == 1 {
					continue
				}
			} else {
				l2 = L.Snapshot()
				s2, err = loadAll(l2)
				if err != nil {
					res.Herr = "c20empty: " + err.Error()
					return res
				}
			}
			corruption := "an unreferenced array slab was added"
			if kind == 0 {
				_, err = atree.NewArray(s2, DefaultAddr, tu.NewSimpleTypeInfo(9))
			} else {
				corruption = "an unreferenced large-value slab was added"
				_, err = atree.NewStorableSlab(s2, DefaultAddr, tu.NewStringValue("orphan"), 7)
			}
			if err != nil {
				res.Herr = "c20empty: " + err.Error()
				return res
			}
			name := "write set"
			if committed {
				if err := s2.FastCommit(1); err != nil {
					res.Herr = "c20empty: " + err.Error()
					return res
				}
				name = "committed"
				s3, err := loadAll(l2.Snapshot())
				if err != nil {
					res.Herr = "c20empty: " + err.Error()
					return res
				}
				judge(name+", fresh storage", s3, false, corruption)
				bs, err := basicFrom(l2.Snapshot())
				if err != nil {
					res.Herr = "c20empty: " + err.Error()
					return res
				}
				judge(name+", basic storage", bs, false, corruption)
			}
			judge(name, s2, false, corruption)
		}
	}
	res.Distinct = append(res.Distinct, HashText(what))
	if len(res.Samples) < 1 {
		res.Samples = append(res.Samples, what)
	}
	return res
}

func c20EmptyArgs() []any {
	var args []any
	for v := 0; v < 4; v++ {
		args = append(args, map[string]int{"variant": v})
	}
	return args
}
