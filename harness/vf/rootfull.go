package vf

import (
	"encoding/json"
	"fmt"

	"github.com/onflow/atree"
)

// rootfull: removals that make a slab GROW (an external collision group collapsing back to a single inline element)
// at the moment where the tree has no slack: a map whose ROOT INDEX slab holds the largest number of children that
// still fits, with the group sitting in a leaf that is filled up to just below its maximum.  The removal makes the
// leaf overflow and split, the root receives one more child and must itself be split.  The construction is adaptive
// (sizes are read from the independent traversal); enumerated: every position of the collision pair (every leaf),
// three element sizes, which of the two members is removed, removal vs. shrinking overwrite — each judged by the
// verifier, the independent structure oracle (size band of every slab incl. the root) and the content model, then
// committed and reopened.
type rootFullArg struct {
	T      uint32 `json:"t"`
	Val    string `json:"val"`
	Pos    int    `json:"pos"`    // which key (by rank) gets a colliding partner
	Second bool   `json:"second"` // remove the second member of the pair instead of the first
}

func rootFullTask(raw json.RawMessage) TaskResult {
	var a rootFullArg
	var res TaskResult
	if err := json.Unmarshal(raw, &a); err != nil {
		res.Herr = err.Error()
		return res
	}
	what := fmt.Sprintf("full index root, collision pair at rank %d, values %s, remove second=%v, slab size %d", a.Pos, a.Val, a.Second, a.T)
	res.Evals = 1
	res.Distinct = append(res.Distinct, what)
	res.Samples = append(res.Samples, what)
	w := NewWorld(a.T)
	w.Digests = NewDigestTable()
	setCollisionLimit(255)
	w.KeyOf = func(n int) MV { return Scalar{uint64(n)} }
	_, _, maxT, _, _, _ := atree.VerifThresholds()
	apply := func(o Op) bool {
		if err := w.Apply(o); err != nil {
			res.Viols = append(res.Viols, what+": "+err.Error())
			return false
		}
		return true
	}
	if !apply(Op{K: "newmap"}) {
		return res
	}
	next := 1000
	set := func(l0, l1 uint64) (int, bool) {
		k := next
		next++
		w.Digests.Table[uint64(k)] = [4]uint64{l0, l1, uint64(k), uint64(k)}
		return k, apply(Op{K: "mset", C: 0, Key: k, V: a.Val})
	}
	root := func() (size uint32, children map[atree.SlabID]uint32, isIndex bool) {
		wk := w.DoWalk()
		children = map[atree.SlabID]uint32{}
		if len(wk.Recs) == 0 {
			return 0, children, false
		}
		r := wk.Recs[0].Info
		if r.Kind != "mapMeta" {
			return r.HeaderSize, children, false
		}
		for _, ch := range r.Children {
			children[ch.SlabID] = ch.Size
		}
		return r.HeaderSize, children, true
	}
	// 1. ascending digests until the root index slab cannot take one more child header
	var keys []int
	for i := 1; ; i++ {
		k, ok := set(uint64(i)*1000, 0)
		if !ok {
			return res
		}
		keys = append(keys, k)
		size, ch, idx := root()
		if idx && len(ch) > 0 && size+18 > maxT {
			break
		}
		if i > 2000 {
			res.Herr = "rootfull: root never filled"
			return res
		}
	}
	if a.Pos >= len(keys) {
		res.Evals = 0
		res.Distinct, res.Samples = nil, nil
		return res // position beyond this tree: nothing to do
	}
	_, before, _ := root()
	nChildren := len(before)
	// 2. a partner colliding on the first level with the key of rank Pos (distinct second level)
	cd := uint64(a.Pos+1) * 1000
	partner, ok := set(cd, 1)
	if !ok {
		return res
	}
	_, after, _ := root()
	if len(after) != nChildren {
		res.Counters = map[string]int{"cases_where_the_partner_already_split_a_leaf": 1}
		return res
	}
	var target atree.SlabID
	changed := 0
	var grow uint32
	for id, sz := range after {
		if before[id] != sz {
			target = id
			changed++
			if before[id] > sz {
				grow = before[id] - sz
			}
		}
	}
	if changed != 1 || grow == 0 {
		// the pair stayed inline (small values) or moved slabs: still a valid case, judged below without the fill
		grow = 0
	}
	// 3. fill the leaf that holds the group up to just below what the collapse would overflow
	if grow > 0 {
		for j := 1; j < 900; j++ {
			_, cur, _ := root()
			if len(cur) != nChildren || cur[target]+grow > maxT {
				break
			}
			if _, ok := set(cd+uint64(j), 0); !ok {
				return res
			}
		}
	}
	if err := RunOracles(w, Spec{Oracles: []string{"sem", "struct"}}); err != nil {
		res.Viols = append(res.Viols, what+": before the removal: "+err.Error())
		return res
	}
	// 4. remove one member of the pair
	victim := partner
	if !a.Second {
		victim = keys[a.Pos]
	}
	if !apply(Op{K: "mremove", C: 0, Key: victim}) {
		return res
	}
	if err := RunOracles(w, Spec{Oracles: []string{"sem", "struct", "order", "regs", "reopen"}}); err != nil {
		res.Viols = append(res.Viols, what+": after removing one member of the pair: "+err.Error())
	}
	return res
}

func init() { RegisterTask("rootfull", rootFullTask) }

func rootFullArgs(thorough bool) []any {
	var args []any
	step := 3
	if thorough {
		step = 1
	}
	for _, v := range []string{"s30", "s46", "s60"} {
		for pos := 0; pos < 70; pos += step {
			for _, second := range []bool{false, true} {
				args = append(args, rootFullArg{T: 256, Val: v, Pos: pos, Second: second})
			}
		}
	}
	return args
}
