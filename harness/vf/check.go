package vf

import (
	"encoding/json"
	"fmt"
	"os"
	"path/filepath"
	"regexp"
	"sort"
	"strconv"
	"strings"
	"sync"
	"syscall"
	"time"
)

// VerifDir is /verif (derived from the binary location: <verif>/bin/check).
func VerifDir() string {
	if d := os.Getenv("VERIF_DIR"); d != "" {
		return d
	}
	exe, err := os.Executable()
	if err == nil {
		return filepath.Dir(filepath.Dir(exe))
	}
	return "/verif"
}

// Run is the context of one check run.
type Run struct {
	ID     string
	Tier   string
	Seed   int
	Level  string
	Pool   *Pool
	Start  time.Time
	Budget time.Duration // internal deadline; reaching it ends with exhaustive:false, exit 0
	// done: spaces / task arguments already completed in this run (the thorough tier first runs everything the quick
	// tier runs; what both tiers share is not explored twice)
	done   map[string]bool
	doneMu sync.Mutex

	Stats       Stats
	Found       []Found
	Rule        string
	Assumptions []string
	Extra       map[string]any
	Counters    map[string]int
	Evals       int // for exploration-style evidence
	Distinct    map[string]bool
	HarnessErr  error
}

func (r *Run) Deadline() time.Time { return r.Start.Add(r.Budget) }

func (r *Run) Thorough() bool { return r.Tier == "thorough" }

func (r *Run) isDone(k string) bool {
	r.doneMu.Lock()
	defer r.doneMu.Unlock()
	return r.done[k]
}

func (r *Run) markDone(k string) {
	r.doneMu.Lock()
	defer r.doneMu.Unlock()
	if r.done == nil {
		r.done = map[string]bool{}
	}
	r.done[k] = true
}

// ExploreSpecs explores the specs concurrently over the shared worker pool (a spec with a
// narrow frontier would otherwise leave workers idle).  Results are merged in spec order.
func (r *Run) ExploreSpecs(specs []Spec) {
	type res struct {
		st    Stats
		found []Found
		err   error
		done  bool
	}
	results := make([]res, len(specs))
	sem := make(chan struct{}, NumWorkers())
	var wg sync.WaitGroup
	for i := range specs {
		specs[i].Prop = r.ID
		if r.HarnessErr != nil {
			break
		}
		if time.Now().After(r.Deadline()) {
			break
		}
		kb, _ := json.Marshal(specs[i])
		key := "space " + string(kb)
		if r.isDone(key) {
			results[i] = res{Stats{Exhaustive: true, CapHit: "(identical space already explored to completion in pass 1)"}, nil, nil, true}
			continue
		}
		sem <- struct{}{}
		wg.Add(1)
		go func(i int) {
			defer wg.Done()
			defer func() { <-sem }()
			st, found, err := Explore(r.Pool, specs[i], r.Deadline(), 3)
			results[i] = res{st, found, err, true}
			if err == nil && st.Exhaustive && len(found) == 0 {
				r.markDone(key)
			}
		}(i)
	}
	wg.Wait()
	var group Stats
	group.Exhaustive = true
	for i, x := range results {
		if !x.done {
			r.Stats.Exhaustive = false
			if r.Stats.CapHit == "" {
				r.Stats.CapHit = "deadline reached before space " + specs[i].Name
			}
			continue
		}
		if x.err != nil {
			if r.HarnessErr == nil {
				r.HarnessErr = x.err
			}
			continue
		}
		if len(specs) <= 12 || os.Getenv("VERIF_VERBOSE") != "" {
			fmt.Printf("  space %-34s states=%d transitions=%d ops=%d maxdepth=%d exhaustive=%v %.1fs %s\n",
				specs[i].Name, x.st.States, x.st.Transitions, x.st.OpsRun, x.st.MaxDepth, x.st.Exhaustive, x.st.Wall, x.st.CapHit)
		}
		group.Add(x.st)
		r.Stats.Add(x.st)
		r.Found = append(r.Found, x.found...)
	}
	if len(specs) > 12 {
		fmt.Printf("  %d spaces %s … %s: states=%d transitions=%d ops=%d exhaustive=%v %s\n", len(specs), specs[0].Name, specs[len(specs)-1].Name,
			group.States, group.Transitions, group.OpsRun, group.Exhaustive, group.CapHit)
	}
}

// RunTaskGroup runs tasks and merges their results into the run (exploration-style counters).
func (r *Run) RunTaskGroup(label, name string, args []any) {
	if r.HarnessErr != nil {
		return
	}
	t0 := time.Now()
	var fresh []any
	var keys []string
	for _, a := range args {
		ab, _ := json.Marshal(a)
		k := "task " + name + " " + string(ab)
		if !r.isDone(k) {
			fresh = append(fresh, a)
			keys = append(keys, k)
		}
	}
	args = fresh
	if len(args) == 0 {
		return
	}
	res, err := r.Pool.RunTasks(name, args)
	if err != nil {
		r.HarnessErr = err
		return
	}
	evals, viols := 0, 0
	for i, x := range res {
		if x.Herr == "" && len(x.Viols) == 0 {
			r.markDone(keys[i])
		}
		if x.Herr != "" && r.HarnessErr == nil {
			r.HarnessErr = fmt.Errorf("%s: %s", label, x.Herr)
		}
		evals += x.Evals
		r.Evals += x.Evals
		for _, d := range x.Distinct {
			r.Distinct[d] = true
		}
		for _, s := range x.Samples {
			if len(r.Stats.Samples) < 12 {
				r.Stats.Samples = append(r.Stats.Samples, label+": "+s)
			}
		}
		for _, v := range x.Viols {
			viols++
			if len(r.Found) < 6 {
				r.Found = append(r.Found, Found{Spec: Spec{Name: label, Kind: "task"}, Msg: v, Kind: "task", Data: map[string]any{"task": name, "arg": args[i]}})
			}
		}
		for k, v := range x.Counters {
			if r.Counters == nil {
				r.Counters = map[string]int{}
			}
			r.Counters[k] += v
		}
	}
	r.Stats.Transitions += evals
	fmt.Printf("  %-40s evaluations=%d violations=%d %.1fs\n", label, evals, viols, time.Since(t0).Seconds())
}

type CheckDef struct {
	ID    string
	Level string // evidence level
	Run   func(r *Run)
}

var checks = map[string]*CheckDef{}

func RegisterCheck(c *CheckDef) { checks[c.ID] = c }

// ---- known findings ------------------------------------------------------------------------

type KnownFinding struct {
	Property string `json:"property"`
	Status   string `json:"status"` // "known" or "fixed"
	Match    string `json:"match"`  // regexp on the violation message
	PathRe   string `json:"path_re,omitempty"`
	What     string `json:"what"`
	Commit   string `json:"commit,omitempty"`
}

func loadKnown() []KnownFinding {
	f, err := os.ReadFile(filepath.Join(VerifDir(), "known_findings.jsonl"))
	if err != nil {
		return nil
	}
	var out []KnownFinding
	for _, line := range strings.Split(string(f), "\n") {
		line = strings.TrimSpace(line)
		if line == "" || strings.HasPrefix(line, "#") {
			continue
		}
		var k KnownFinding
		if json.Unmarshal([]byte(line), &k) == nil {
			out = append(out, k)
		}
	}
	return out
}

func matchKnown(known []KnownFinding, prop string, f Found) *KnownFinding {
	for i := range known {
		k := &known[i]
		if k.Property != prop || k.Status != "known" {
			continue
		}
		if ok, _ := regexp.MatchString(k.Match, f.Msg); !ok {
			continue
		}
		if k.PathRe != "" {
			if ok, _ := regexp.MatchString(k.PathRe, OpsString(f.Path)); !ok {
				continue
			}
		}
		return k
	}
	return nil
}

// ---- replay files --------------------------------------------------------------------------

type ReplayFile struct {
	Property string          `json:"property"`
	Spec     Spec            `json:"spec"`
	Path     []Op            `json:"path"`
	Msg      string          `json:"msg"`
	Kind     string          `json:"kind,omitempty"` // driver-specific replays
	Data     json.RawMessage `json:"data,omitempty"`
}

func writeReplay(prop string, n int, rf ReplayFile) string {
	dir := filepath.Join(VerifDir(), "replays", prop)
	os.MkdirAll(dir, 0o755)
	p := filepath.Join(dir, fmt.Sprintf("violation-%d.json", n))
	b, _ := json.MarshalIndent(rf, "", " ")
	os.WriteFile(p, b, 0o644)
	return p
}

// ReplayPath re-executes a history in this process and returns the violation message ("" if none).
func ReplayPath(spec Spec, path []Op) (string, error) {
	sp := MakeSpace(spec)
	w, err := sp.Build(path[:0])
	if err != nil {
		return "", err
	}
	_ = w
	w, err = sp.Build(path[:len(path)-1])
	if err != nil {
		if v, ok := err.(*Violation); ok {
			return "prefix: " + v.Msg, nil
		}
		return "", err
	}
	parentTxt := ""
	if spec.Has("notrace") {
		parentTxt = w.TraceText()
	}
	_, err = stepAndCheck(sp, w, path[len(path)-1], spec.Has("notrace"), parentTxt)
	if err != nil {
		if v, ok := err.(*Violation); ok {
			return v.Msg, nil
		}
		return "", err
	}
	if spec.Has("coldop") {
		v, h := coldOp(sp, path[:len(path)-1], path[len(path)-1])
		if h != "" {
			return "", fmt.Errorf("%s", h)
		}
		if v != "" {
			return "with a commit placed before the last operation: " + v, nil
		}
	}
	return "", nil
}

// ---- evidence ------------------------------------------------------------------------------

func (r *Run) writeEvidence(violations int) {
	cov := map[string]any{}
	switch r.Level {
	case "model_checking":
		if r.Stats.States == 0 {
			r.Stats.States = len(r.Distinct)
		}
		cov["states"] = r.Stats.States
		cov["transitions"] = r.Stats.Transitions
		cov["traces_validated_against_impl"] = r.Stats.Transitions
		cov["evaluations"] = r.Stats.Transitions
		cov["distinct_nontrivial"] = r.Stats.States
	default:
		cov["evaluations"] = r.Evals
		cov["distinct_nontrivial"] = len(r.Distinct)
	}
	cov["rule"] = r.Rule
	samples := r.Stats.Samples
	if len(samples) == 0 {
		samples = []string{"(none)"}
	}
	cov["samples"] = samples
	cov["exhaustive"] = r.Stats.Exhaustive
	cov["max_depth"] = r.Stats.MaxDepth
	cov["impl_operations_executed"] = r.Stats.OpsRun
	if r.Stats.CapHit != "" {
		cov["cap_hit"] = r.Stats.CapHit
	}
	for k, v := range r.Extra {
		cov[k] = v
	}
	if len(r.Counters) > 0 {
		cov["counters"] = r.Counters
	}
	if len(r.Stats.Shapes) > 0 {
		cov["states_by_structural_class"] = r.Stats.Shapes
		cov["distinct_structural_classes"] = len(r.Stats.Shapes)
	}
	ev := map[string]any{
		"property_id": r.ID,
		"tier":        r.Tier,
		"seed":        r.Seed,
		"level":       r.Level,
		"coverage":    cov,
		"assumptions": r.Assumptions,
		"wall_s":      time.Since(r.Start).Seconds(),
		"violations":  violations,
	}
	dir := filepath.Join(VerifDir(), "evidence")
	os.MkdirAll(dir, 0o755)
	b, _ := json.MarshalIndent(ev, "", " ")
	os.WriteFile(filepath.Join(dir, r.ID+".json"), b, 0o644)
}

// ---- main ----------------------------------------------------------------------------------

// extraCommands are registered by build-tagged files (e.g. the sched build).
var extraCommands = map[string]func(args []string) int{}

func Main(args []string) int {
	if len(args) >= 1 {
		if h, ok := extraCommands[args[0]]; ok {
			return h(args[1:])
		}
	}
	if len(args) >= 1 && args[0] == "__worker" {
		WorkerMain()
		return 0
	}
	if len(args) >= 2 && args[0] == "__explore" {
		var spec Spec
		if err := json.Unmarshal([]byte(args[1]), &spec); err != nil {
			fmt.Println(err)
			return 2
		}
		pool, _ := NewPool(NumWorkers())
		st, found, err := Explore(pool, spec, time.Time{}, 5)
		pool.Close()
		fmt.Printf("states=%d transitions=%d depth=%d err=%v\n", st.States, st.Transitions, st.MaxDepth, err)
		db, _ := json.Marshal(st.Deepest)
		fmt.Printf("deepest: %s\n%s\n", OpsString(st.Deepest), db)
		for _, f := range found {
			fmt.Printf("  %s\n    [%s]\n", f.Msg, OpsString(f.Path))
		}
		return 0
	}
	if len(args) >= 3 && args[0] == "__c19" {
		return C19Main(args[1], args[2])
	}
	if len(args) >= 2 && args[0] == "__sweep" {
		return SweepMain(args[1])
	}
	if len(args) >= 3 && args[0] == "__text" {
		// debug: print the canonical state text of a history: __text <spec json> <ops json>
		var spec Spec
		var ops []Op
		if err := json.Unmarshal([]byte(args[1]), &spec); err != nil {
			fmt.Println(err)
			return 2
		}
		if err := json.Unmarshal([]byte(args[2]), &ops); err != nil {
			fmt.Println(err)
			return 2
		}
		w, err := MakeSpace(spec).Build(ops)
		if err != nil {
			fmt.Println("build:", err)
			return 1
		}
		txt, _ := w.StateText()
		fmt.Print(txt)
		fmt.Println("key", HashText(txt))
		return 0
	}
	if len(args) < 1 {
		fmt.Println("usage: check <Cxx> [--tier quick|thorough] [--replay file] [--budget seconds]")
		return 2
	}
	id := args[0]
	tier := os.Getenv("VERIF_TIER")
	if tier == "" {
		tier = "quick"
	}
	replay := ""
	budget := 0
	for i := 1; i < len(args); i++ {
		switch args[i] {
		case "--tier":
			i++
			tier = args[i]
		case "quick", "thorough":
			tier = args[i]
		case "--replay":
			i++
			replay = args[i]
		case "--budget":
			i++
			budget, _ = strconv.Atoi(args[i])
		}
	}
	if id == "list" {
		var ids []string
		for k := range checks {
			ids = append(ids, k)
		}
		sort.Strings(ids)
		fmt.Println(strings.Join(ids, " "))
		return 0
	}
	def, ok := checks[id]
	if !ok {
		fmt.Println("unknown check", id)
		return 2
	}
	if replay != "" {
		return doReplay(id, replay)
	}
	seed, _ := strconv.Atoi(os.Getenv("VERIF_SEED"))
	r := &Run{ID: id, Tier: tier, Seed: seed, Level: def.Level, Start: time.Now(), Extra: map[string]any{}, Distinct: map[string]bool{}}
	r.Stats.Exhaustive = true
	if budget > 0 {
		r.Budget = time.Duration(budget) * time.Second
	} else if tier == "thorough" {
		r.Budget = 18 * time.Minute
	} else {
		r.Budget = 5 * time.Minute
	}
	pool, err := NewPool(NumWorkers())
	if err != nil {
		fmt.Println("cannot start workers:", err)
		return 2
	}
	r.Pool = pool
	fmt.Printf("check %s tier=%s workers=%d\n", id, tier, NumWorkers())
	if tier == "thorough" && budget == 0 && os.Getenv("VERIF_THOROUGH_ONLY") == "" {
		// the thorough tier never explores less than the quick tier: first everything the quick tier runs (under the
		// quick tier's budget), then the thorough tier's own spaces and bounds (under the thorough budget)
		fmt.Println("-- pass 1: the quick tier's spaces")
		full := r.Budget
		r.Tier, r.Budget = "quick", 5*time.Minute
		def.Run(r)
		r.Tier, r.Budget = "thorough", time.Since(r.Start)+full
		fmt.Println("-- pass 2: the thorough tier's spaces")
	}
	def.Run(r)
	pool.Close()
	if r.HarnessErr != nil {
		fmt.Println("HARNESS ERROR:", r.HarnessErr)
		r.Stats.Exhaustive = false
		r.Stats.CapHit = "harness error: " + r.HarnessErr.Error()
		r.writeEvidence(0)
		return 2
	}
	// classify what was found
	known := loadKnown()
	nviol := 0
	printedKnown := map[string]bool{}
	for _, f := range r.Found {
		if k := matchKnown(known, id, f); k != nil {
			if !printedKnown[k.What] {
				fmt.Printf("KNOWN-FINDING: property=%s %s\n", id, k.What)
				printedKnown[k.What] = true
			}
			continue
		}
		// believe a violation only if it replays identically 5 times
		if f.Path != nil && f.Kind != "hang" { // (a history that does not return was already re-executed by the probe)
			stable := true
			for i := 0; i < 5; i++ {
				msg, err := ReplayPath(f.Spec, f.Path)
				if err != nil || msg != f.Msg {
					stable = false
					fmt.Printf("HARNESS ERROR: violation does not replay identically (%v / %q vs %q) at [%s]\n", err, msg, f.Msg, OpsString(f.Path))
					break
				}
			}
			if !stable {
				r.writeEvidence(0)
				return 2
			}
		}
		nviol++
		rf := ReplayFile{Property: id, Spec: f.Spec, Path: f.Path, Msg: f.Msg, Kind: f.Kind}
		if f.Data != nil {
			rf.Data, _ = json.Marshal(f.Data)
		}
		p := writeReplay(id, nviol, rf)
		fmt.Printf("  violation: %s\n    history: [%s]\n    space: %s\n", f.Msg, OpsString(f.Path), f.Spec.Name)
		fmt.Printf("VIOLATION property=%s replay=%s\n", id, p)
	}
	r.writeEvidence(nviol)
	fmt.Printf("check %s done: states=%d transitions=%d exhaustive=%v violations=%d wall=%.1fs\n",
		id, r.Stats.States, r.Stats.Transitions, r.Stats.Exhaustive, nviol, time.Since(r.Start).Seconds())
	if os.Getenv("VERIF_VERBOSE") != "" {
		fmt.Printf("  costliest single expansion request: %.1f s of CPU time (watchdog at %.0f s)\n", maxExpandCPU.v, hangCPU)
	}
	if nviol > 0 {
		return 1
	}
	return 0
}

func doReplay(id, file string) int {
	b, err := os.ReadFile(file)
	if err != nil {
		fmt.Println(err)
		return 2
	}
	var rf ReplayFile
	if err := json.Unmarshal(b, &rf); err != nil {
		fmt.Println(err)
		return 2
	}
	if rf.Kind != "" {
		if h, ok := replayHandlers[rf.Kind]; ok {
			return h(rf)
		}
		fmt.Println("no replay handler for kind", rf.Kind)
		return 2
	}
	if len(rf.Path) == 0 {
		return replayHandlers["message"](rf)
	}
	msg, err := ReplayPath(rf.Spec, rf.Path)
	if err != nil {
		fmt.Println("HARNESS ERROR:", err)
		return 2
	}
	fmt.Printf("history: [%s]\n", OpsString(rf.Path))
	if msg == "" {
		fmt.Println("no violation on replay")
		return 0
	}
	fmt.Println("violation:", msg)
	fmt.Printf("VIOLATION property=%s replay=%s\n", id, file)
	return 1
}

var replayHandlers = map[string]func(ReplayFile) int{
	// task: re-run the task (same argument) in this process and report what it finds
	"task": func(rf ReplayFile) int {
		var d struct {
			Task string          `json:"task"`
			Arg  json.RawMessage `json:"arg"`
		}
		if err := json.Unmarshal(rf.Data, &d); err != nil {
			fmt.Println("bad replay file:", err)
			return 2
		}
		h, ok := taskHandlers[d.Task]
		if !ok {
			fmt.Println("unknown task (wrong build variant?)", d.Task)
			return 2
		}
		res := h(d.Arg)
		if res.Herr != "" {
			fmt.Println("HARNESS ERROR:", res.Herr)
			return 2
		}
		fmt.Printf("task %s %s: %d evaluations\n", d.Task, d.Arg, res.Evals)
		for _, v := range res.Viols {
			fmt.Println("violation:", v)
		}
		if len(res.Viols) > 0 {
			fmt.Printf("VIOLATION property=%s replay=(task above)\n", rf.Property)
			return 1
		}
		fmt.Println("no violation on replay")
		return 0
	},
	// hang: the history's last operation did not return during the search; re-run it under a CPU-time watchdog
	"hang": func(rf ReplayFile) int {
		fmt.Printf("history: [%s]\n", OpsString(rf.Path))
		go func() {
			for {
				time.Sleep(2 * time.Second)
				var ru syscall.Rusage
				if syscall.Getrusage(syscall.RUSAGE_SELF, &ru) != nil {
					continue
				}
				used := float64(ru.Utime.Sec+ru.Stime.Sec) + float64(ru.Utime.Usec+ru.Stime.Usec)/1e6
				if used > probeCPU {
					fmt.Printf("violation: the history does not return (more than %.0f s of CPU time)\n", probeCPU)
					fmt.Printf("VIOLATION property=%s replay=(history above)\n", rf.Property)
					os.Exit(1)
				}
			}
		}()
		msg, err := ReplayPath(rf.Spec, rf.Path)
		if err != nil {
			fmt.Println("HARNESS ERROR:", err)
			return 2
		}
		if msg != "" {
			fmt.Println("violation:", msg)
			fmt.Printf("VIOLATION property=%s replay=(history above)\n", rf.Property)
			return 1
		}
		fmt.Println("the history returns; no violation on replay")
		return 0
	},
	"message": func(rf ReplayFile) int {
		fmt.Println("recorded violation (re-run the check to reproduce):", rf.Msg)
		return 1
	},
}

func time_After(t time.Time) bool { return time.Now().After(t) }
