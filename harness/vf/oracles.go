package vf

import (
	"bytes"
	"fmt"
	"sort"
	"strings"

	"github.com/onflow/atree"
	tu "github.com/onflow/atree/test_utils"
)

func setCollisionLimit(l uint32) { atree.VerifSetMaxCollisionLimitPerDigest(l) }

// RunOracles evaluates the state oracles named in spec.Oracles on w.  w is a throw-away world:
// the oracles may commit, reopen and load slabs.  Order: non-perturbing first.
func RunOracles(w *World, spec Spec) error {
	if w.FormerOnly != nil {
		return OFormerParent(w, w.FormerOnly)
	}
	if spec.Has("healthx") {
		return OHealthExact(w)
	}
	if spec.Has("faults") {
		k := spec.Extra["k"]
		if k == 0 || spec.Has("k1") {
			k = 1
		}
		return OFaults(w, k)
	}
	if spec.Has("crash") {
		// crash now ...
		if err := OCrash(w); err != nil {
			return err
		}
		// ... and: commit now, then crash (every history is thereby also judged with a final commit,
		// without spending a level of search depth on it)
		if err := w.Commit(1, false); err != nil {
			return err
		}
		if err := OCrash(w); err != nil {
			return wrapViol(err, "after one more commit: ")
		}
		return nil
	}
	if spec.Has("twin") {
		if w.TwinBase == nil {
			return fmt.Errorf("harness: space does not support the twin oracle")
		}
		return OTwin(w)
	}
	if spec.Has("sem") {
		if err := w.DeepCheck(); err != nil {
			return wrapViol(err, "content differs from model: ")
		}
	}
	if spec.Has("reach") {
		if err := OReach(w, "before commit"); err != nil {
			return err
		}
	}
	if spec.Has("struct") {
		if err := OStructInRepo(w); err != nil {
			return err
		}
		if err := OStructIndependent(w, w.DoWalk(), "in memory"); err != nil {
			return err
		}
	}
	if spec.Has("order") {
		if err := OOrder(w); err != nil {
			return err
		}
	}
	if spec.Has("ranges") {
		if err := ORanges(w); err != nil {
			return err
		}
	}
	if spec.Has("badids") {
		if err := OBadIDs(w); err != nil {
			return err
		}
	}
	if spec.Has("inject") {
		// runs on its own copy of the history's end state: it commits
		keys := []int{}
		for i := 0; i < spec.Keys; i++ {
			keys = append(keys, i)
		}
		if spec.Extra["kLim"] == 1 {
			keys = append(keys, 100, 101)
		}
		if spec.Keys == 0 && w.Digests != nil {
			// trajectories: a few present and absent keys around the slab boundaries
			for _, c := range w.LiveRoots() {
				for i, k := range c.Keys {
					if i%7 == 0 {
						keys = append(keys, int(keyNumber(k)))
					}
				}
			}
			keys = append(keys, 10000, 9999)
		}
		if !spec.Has("reopen") && !spec.Has("struct") {
			return OInject(w, keys)
		}
		defer func() {}()
		if err := injectOnCopy(w, keys); err != nil {
			return err
		}
	}
	if spec.Has("iter") {
		if err := OIter(w); err != nil {
			return err
		}
	}
	if spec.Has("inline") {
		if err := OInline(w); err != nil {
			return err
		}
	}
	if spec.Has("size") {
		if err := OSizeInMemory(w); err != nil {
			return err
		}
	}
	if spec.Has("iterloaded") {
		if err := OIterLoaded(w); err != nil {
			return err
		}
		if err := OReadOnlyMutation(w); err != nil {
			return err
		}
		return nil
	}
	needCommit := spec.Has("reopen") || spec.Has("regs") || spec.Has("size") || spec.Has("rt") || spec.Has("health")
	if !needCommit {
		return nil
	}
	// Remember in-memory slabs of the write set to compare with what their registers decode to.
	_, deltas := atree.VerifStorageLayers(w.St)
	pending := map[atree.SlabID]atree.Slab{}
	for id, s := range deltas {
		if s != nil && !id.HasTempAddress() {
			pending[id] = s
		}
	}
	if err := w.Commit(1, false); err != nil {
		return err
	}
	if len(w.Ledger.OutsideCommit) > 0 {
		c := w.Ledger.OutsideCommit[0]
		return violf("ledger %s of %s outside a commit", c.Kind, c.ID)
	}
	if spec.Has("size") || spec.Has("rt") {
		for _, id := range w.Ledger.SortedIDs() {
			s := pending[id]
			if err := ORegister(w, id, w.Ledger.Regs[id], s, spec.Has("size"), spec.Has("rt")); err != nil {
				return err
			}
		}
	}
	if spec.Has("reach") {
		if err := OReach(w, "after commit"); err != nil {
			return err
		}
	}
	if spec.Has("reopen") || spec.Has("regs") || spec.Has("health") {
		w.Reopen()
		if err := w.DeepCheck(); err != nil {
			return wrapViol(err, "after commit and reopen from the ledger: ")
		}
		// positional / keyed access must agree with sequential traversal on the reopened containers
		if err := w.LookupCheck(); err != nil {
			return wrapViol(err, "after commit and reopen from the ledger: ")
		}
		if spec.Has("regs") {
			if err := OStructIndependent(w, w.DoWalk(), "decoded from registers"); err != nil {
				return err
			}
			if err := OStructInRepo(w); err != nil {
				return wrapViol(err, "after reopen: ")
			}
		}
		if spec.Has("health") {
			if err := OHealth(w); err != nil {
				return err
			}
		}
	}
	return nil
}

// OStructInRepo runs the library's own verifiers on every live root.
func OStructInRepo(w *World) error {
	for _, c := range w.LiveRoots() {
		if err := w.EnsureHandle(c); err != nil {
			return err
		}
		ti := w.typeInfo(c.TypeID, c.Comp)
		if c.IsMap {
			if err := atree.VerifyMap(c.Map, c.SID.Address(), ti, CompareTypeInfo, GetHashInput, true); err != nil {
				return violf("VerifyMap(c%d): %v", c.Serial, err)
			}
			if err := atree.VerifyMapSerialization(c.Map, decMode, encMode, DecodeStorable, DecodeTypeInfo, storableEqual); err != nil {
				return violf("VerifyMapSerialization(c%d): %v", c.Serial, err)
			}
		} else {
			if err := atree.VerifyArray(c.Arr, c.SID.Address(), ti, CompareTypeInfo, GetHashInput, true); err != nil {
				return violf("VerifyArray(c%d): %v", c.Serial, err)
			}
			if err := atree.VerifyArraySerialization(c.Arr, decMode, encMode, DecodeStorable, DecodeTypeInfo, storableEqual); err != nil {
				return violf("VerifyArraySerialization(c%d): %v", c.Serial, err)
			}
		}
	}
	return nil
}

func storableEqual(a, b atree.Storable) bool {
	ea, err1 := encodeStorable(a)
	eb, err2 := encodeStorable(b)
	if err1 != nil || err2 != nil {
		return false
	}
	return bytes.Equal(ea, eb)
}

func encodeStorable(s atree.Storable) ([]byte, error) {
	var buf bytes.Buffer
	enc := atree.NewEncoder(&buf, encMode)
	if err := s.Encode(enc); err != nil {
		return nil, err
	}
	if err := enc.CBOR.Flush(); err != nil {
		return nil, err
	}
	return buf.Bytes(), nil
}

// OStructIndependent checks the well-formedness clauses of C05 on the harness's own traversal.
func OStructIndependent(w *World, wk *Walk, where string) error {
	target, minT, maxT, maxArr, maxMapElem, maxKey := atree.VerifThresholds()
	_ = target
	if len(wk.Broken) > 0 {
		return violf("%s: %s", where, wk.Broken[0])
	}
	for id, n := range wk.RefCount {
		if n > 1 {
			return violf("%s: slab %s is referenced %d times", where, id, n)
		}
	}
	for i := range wk.Recs {
		r := &wk.Recs[i]
		info := &r.Info
		isRootOfTree := info.HasExtraData
		switch info.Kind {
		case "arrayData":
			if err := checkArrayData(info, isRootOfTree, where, minT, maxT, maxArr); err != nil {
				return err
			}
		case "arrayMeta":
			if info.HeaderSize > maxT {
				return violf("%s: index slab %s size %d > max %d", where, r.ID, info.HeaderSize, maxT)
			}
			if !isRootOfTree && info.HeaderSize < minT {
				return violf("%s: non-root index slab %s size %d < min %d", where, r.ID, info.HeaderSize, minT)
			}
			if isRootOfTree && len(info.Children) < 2 {
				return violf("%s: root index slab %s has %d children", where, r.ID, len(info.Children))
			}
			if len(info.Children) == 0 {
				return violf("%s: index slab %s has no children", where, r.ID)
			}
			sum := uint32(0)
			for j, ch := range info.Children {
				cr := wk.ByID[ch.SlabID]
				if cr == nil {
					return violf("%s: child %s of %s not found", where, ch.SlabID, r.ID)
				}
				if cr.Info.Kind != "arrayData" && cr.Info.Kind != "arrayMeta" {
					return violf("%s: child %s of array index slab is %s", where, ch.SlabID, cr.Info.Kind)
				}
				if cr.Info.HeaderSize != ch.Size || cr.Info.HeaderCount != ch.Count {
					return violf("%s: index slab %s child %d header (size %d count %d) != child's own (size %d count %d)",
						where, r.ID, j, ch.Size, ch.Count, cr.Info.HeaderSize, cr.Info.HeaderCount)
				}
				if cr.Info.HasExtraData {
					return violf("%s: non-root slab %s carries extra data", where, ch.SlabID)
				}
				sum += ch.Count
				if j < len(info.CountSums) && info.CountSums[j] != sum {
					return violf("%s: index slab %s cumulative count[%d] = %d, want %d", where, r.ID, j, info.CountSums[j], sum)
				}
			}
			if sum != info.HeaderCount {
				return violf("%s: index slab %s count %d != sum of children %d", where, r.ID, info.HeaderCount, sum)
			}
		case "mapData":
			if err := checkMapData(w, info, isRootOfTree, where, minT, maxT, maxMapElem, maxKey); err != nil {
				return err
			}
		case "mapMeta":
			if info.HeaderSize > maxT {
				return violf("%s: map index slab %s size %d > max %d", where, r.ID, info.HeaderSize, maxT)
			}
			if !isRootOfTree && info.HeaderSize < minT {
				return violf("%s: non-root map index slab %s size %d < min %d", where, r.ID, info.HeaderSize, minT)
			}
			if isRootOfTree && len(info.Children) < 2 {
				return violf("%s: root map index slab %s has %d children", where, r.ID, len(info.Children))
			}
			if len(info.Children) == 0 {
				return violf("%s: map index slab %s has no children", where, r.ID)
			}
			if info.FirstKey != info.Children[0].FirstKey {
				return violf("%s: map index slab %s first key %x != first child's %x", where, r.ID, info.FirstKey, info.Children[0].FirstKey)
			}
			for j, ch := range info.Children {
				cr := wk.ByID[ch.SlabID]
				if cr == nil {
					return violf("%s: child %s of %s not found", where, ch.SlabID, r.ID)
				}
				if cr.Info.Kind != "mapData" && cr.Info.Kind != "mapMeta" {
					return violf("%s: child %s of map index slab is %s", where, ch.SlabID, cr.Info.Kind)
				}
				if cr.Info.HeaderSize != ch.Size || cr.Info.FirstKey != ch.FirstKey {
					return violf("%s: map index slab %s child %d header (size %d fk %x) != child's own (size %d fk %x)",
						where, r.ID, j, ch.Size, ch.FirstKey, cr.Info.HeaderSize, cr.Info.FirstKey)
				}
				if j > 0 && info.Children[j-1].FirstKey >= ch.FirstKey {
					return violf("%s: map index slab %s children first keys not ascending at %d", where, r.ID, j)
				}
				if cr.Info.HasExtraData {
					return violf("%s: non-root slab %s carries extra data", where, ch.SlabID)
				}
			}
		}
	}
	// Leaves of each tree, left to right: sibling links, global digest order.
	if err := checkLeafChains(wk, where); err != nil {
		return err
	}
	return nil
}

func checkArrayData(info *atree.VerifSlabInfo, root bool, where string, minT, maxT, maxArr uint32) error {
	if info.HeaderCount != uint32(len(info.Elements)) {
		return violf("%s: data slab %s count %d != %d elements", where, info.SlabID, info.HeaderCount, len(info.Elements))
	}
	if info.HeaderSize > maxT {
		return violf("%s: data slab %s size %d > max %d", where, info.SlabID, info.HeaderSize, maxT)
	}
	if !root && info.HeaderSize < minT {
		return violf("%s: non-root data slab %s size %d < min %d", where, info.SlabID, info.HeaderSize, minT)
	}
	prefix := uint32(2 + 16 + 3)
	if root {
		prefix = 2 + 3
		if info.Inlined {
			prefix = 2 + 1 + 2 + 1 + 8 + 3
		}
	}
	sum := prefix
	for i, e := range info.Elements {
		sz := e.ByteSize()
		if sz > maxArr {
			return violf("%s: data slab %s element %d size %d > inline limit %d", where, info.SlabID, i, sz, maxArr)
		}
		sum += sz
		if sub, ok := e.(atree.Slab); ok {
			si := atree.VerifDescribeSlab(sub)
			if err := checkInlinedSlab(&si, where, maxArr); err != nil {
				return err
			}
		} else if ws, ok := unwrapStorable(e).(atree.Slab); ok {
			si := atree.VerifDescribeSlab(ws)
			if err := checkInlinedSlab(&si, where, maxArr); err != nil {
				return err
			}
		}
	}
	if sum != info.HeaderSize {
		return violf("%s: data slab %s header size %d != prefix+elements %d", where, info.SlabID, info.HeaderSize, sum)
	}
	if root && info.Next != atree.SlabIDUndefined {
		return violf("%s: root data slab %s has a sibling link", where, info.SlabID)
	}
	return nil
}

func checkInlinedSlab(si *atree.VerifSlabInfo, where string, limit uint32) error {
	// the inlined slab's own bookkeeping (header size = inlined prefix + elements, counts, limits)
	_, minT, maxT, maxArr, maxMapElem, maxKey := atree.VerifThresholds()
	switch si.Kind {
	case "arrayData":
		if err := checkArrayData(si, true, where+" (inlined)", minT, maxT, maxArr); err != nil {
			return err
		}
	case "mapData":
		if err := checkMapData(nil, si, true, where+" (inlined)", minT, maxT, maxMapElem, maxKey); err != nil {
			return err
		}
	}
	if !si.Inlined {
		return violf("%s: slab %s is stored inline but not marked inlined", where, si.SlabID)
	}
	if !si.HasExtraData {
		return violf("%s: inlined slab %s has no extra data", where, si.SlabID)
	}
	if si.Kind != "arrayData" && si.Kind != "mapData" {
		return violf("%s: inlined slab %s is %s", where, si.SlabID, si.Kind)
	}
	return nil
}

func checkMapData(w *World, info *atree.VerifSlabInfo, root bool, where string, minT, maxT, maxMapElem, maxKey uint32) error {
	if !info.AnySize {
		if info.HeaderSize > maxT {
			return violf("%s: map data slab %s size %d > max %d", where, info.SlabID, info.HeaderSize, maxT)
		}
		if !root && !info.CollisionGroup && info.HeaderSize < minT {
			return violf("%s: non-root map data slab %s size %d < min %d", where, info.SlabID, info.HeaderSize, minT)
		}
	}
	prefix := uint32(2 + 16)
	if root {
		prefix = 2
		if info.Inlined {
			prefix = 2 + 1 + 2 + 1 + 8
		}
	}
	if info.HeaderSize != prefix+info.MapElemsSize {
		return violf("%s: map data slab %s header size %d != prefix %d + elements %d", where, info.SlabID, info.HeaderSize, prefix, info.MapElemsSize)
	}
	if err := checkElems(info.MapElems, info.MapLevel, info.MapListKind, info.MapElemsSize, info.SlabID, where, maxMapElem, maxKey, info.CollisionGroup || info.AnySize); err != nil {
		return err
	}
	if len(info.MapElems) > 0 && !info.MapListKind {
		if info.FirstKey != info.MapElems[0].Digest {
			return violf("%s: map data slab %s first key %x != first element digest %x", where, info.SlabID, info.FirstKey, info.MapElems[0].Digest)
		}
	}
	if root && info.Next != atree.SlabIDUndefined {
		return violf("%s: root map data slab %s has a sibling link", where, info.SlabID)
	}
	return nil
}

// checkElems verifies digests sorted+unique, sizes add up, per-element limits.
func checkElems(es []atree.VerifElem, level uint, list bool, size uint32, id atree.SlabID, where string, maxMapElem, maxKey uint32, inGroup bool) error {
	var sum uint32
	if list {
		sum = 1 + 1 + 1 + 3 // singleElementsPrefixSize
	} else {
		sum = 1 + 1 + 3 + 3 // hkeyElementsPrefixSize
	}
	for i, e := range es {
		if !list {
			sum += 8
			if i > 0 && es[i-1].Digest >= e.Digest {
				return violf("%s: slab %s level %d digests not ascending/unique at %d: %x then %x", where, id, level, i, es[i-1].Digest, e.Digest)
			}
		}
		sum += e.Size
		switch e.Kind {
		case "single":
			ks, vs := e.Key.ByteSize(), e.Value.ByteSize()
			if e.Size != 1+ks+vs {
				return violf("%s: slab %s element size %d != 1+key %d+value %d", where, id, e.Size, ks, vs)
			}
			if ks > maxKey {
				return violf("%s: slab %s key size %d > key limit %d", where, id, ks, maxKey)
			}
			if e.Size > maxMapElem {
				return violf("%s: slab %s element size %d > element limit %d", where, id, e.Size, maxMapElem)
			}
			if sub, ok := unwrapStorable(e.Value).(atree.Slab); ok {
				si := atree.VerifDescribeSlab(sub)
				if err := checkInlinedSlab(&si, where, maxMapElem); err != nil {
					return err
				}
			}
		case "inlineGroup":
			if list {
				return violf("%s: slab %s has a collision group inside a digest-less list", where, id)
			}
			var sub uint32
			if err := checkElems(e.Elems, e.Level, e.ListKind, 0, id, where, maxMapElem, maxKey, true); err != nil {
				return err
			}
			_ = sub
			if e.Level != level+1 {
				return violf("%s: slab %s group at level %d holds elements of level %d", where, id, level, e.Level)
			}
			if len(e.Elems) < 1 {
				return violf("%s: slab %s has an empty inline collision group", where, id)
			}
			if !inGroup && e.Size > maxMapElem {
				return violf("%s: slab %s inline collision group size %d > element limit %d", where, id, e.Size, maxMapElem)
			}
		case "externalGroup":
			if list {
				return violf("%s: slab %s has an external group inside a digest-less list", where, id)
			}
		default:
			return violf("%s: slab %s has element of unknown kind", where, id)
		}
	}
	if size != 0 && sum != size {
		return violf("%s: slab %s elements size %d != sum %d", where, id, size, sum)
	}
	return nil
}

// checkLeafChains: for each tree (root record and its descendants through index slabs only) the
// data slabs in left-to-right order must be linked by their sibling links, the last has none.
func checkLeafChains(wk *Walk, where string) error {
	for i := range wk.Recs {
		r := &wk.Recs[i]
		if !r.Info.HasExtraData {
			continue
		}
		if r.Info.Kind != "arrayMeta" && r.Info.Kind != "mapMeta" {
			continue
		}
		var leaves []*SlabRec
		var collect func(x *SlabRec)
		collect = func(x *SlabRec) {
			if x.Info.Kind == "arrayMeta" || x.Info.Kind == "mapMeta" {
				for _, ch := range x.Info.Children {
					if cr := wk.ByID[ch.SlabID]; cr != nil {
						collect(cr)
					}
				}
				return
			}
			leaves = append(leaves, x)
		}
		collect(r)
		depths := map[int]bool{}
		var depthOf func(x *SlabRec, d int)
		depthOf = func(x *SlabRec, d int) {
			if x.Info.Kind == "arrayMeta" || x.Info.Kind == "mapMeta" {
				for _, ch := range x.Info.Children {
					if cr := wk.ByID[ch.SlabID]; cr != nil {
						depthOf(cr, d+1)
					}
				}
				return
			}
			depths[d] = true
		}
		depthOf(r, 0)
		if len(depths) > 1 {
			return violf("%s: tree %s has leaves at different depths", where, r.ID)
		}
		var lastDigest uint64
		haveDigest := false
		for j, lf := range leaves {
			want := atree.SlabIDUndefined
			if j+1 < len(leaves) {
				want = leaves[j+1].ID
			}
			if lf.Info.Next != want {
				return violf("%s: leaf %d (%s) of tree %s links to %s, want %s", where, j, lf.ID, r.ID, lf.Info.Next, want)
			}
			if lf.Info.Kind == "mapData" {
				for _, e := range lf.Info.MapElems {
					if haveDigest && e.Digest <= lastDigest {
						return violf("%s: tree %s digests not globally ascending at leaf %d: %x after %x", where, r.ID, j, e.Digest, lastDigest)
					}
					lastDigest, haveDigest = e.Digest, true
				}
				if len(lf.Info.MapElems) == 0 {
					return violf("%s: tree %s has an empty non-root leaf %s", where, r.ID, lf.ID)
				}
			}
			if lf.Info.Kind == "arrayData" && len(lf.Info.Elements) == 0 {
				return violf("%s: tree %s has an empty non-root leaf %s", where, r.ID, lf.ID)
			}
		}
	}
	return nil
}

// OReach: the set of slabs in storage == the set reachable from live roots (C09).
func OReach(w *World, when string) error {
	wk := w.DoWalk()
	if len(wk.Broken) > 0 {
		return violf("%s: dangling reference: %s", when, wk.Broken[0])
	}
	for id, n := range wk.RefCount {
		if n > 1 {
			return violf("%s: slab %s is referenced %d times", when, id, n)
		}
	}
	reach := map[atree.SlabID]bool{}
	for i := range wk.Recs {
		r := &wk.Recs[i]
		reach[r.ID] = true
		// owner address: every slab of a tree shares the root container's address
		rootC := w.Conts[r.Root]
		if r.ID.Address() != rootC.SID.Address() {
			return violf("%s: slab %s reached from root c%d (%s) has a different owner", when, r.ID, rootC.Serial, rootC.SID)
		}
	}
	var leaked []string
	for _, id := range w.AllStorageIDs() {
		if !reach[id] {
			leaked = append(leaked, id.String())
		}
	}
	if len(leaked) > 0 {
		return violf("%s: %d slab(s) in storage not reachable from any live root: %s", when, len(leaked), strings.Join(leaked, ","))
	}
	return nil
}

// OInline: a nested container is stored inline exactly when it is one slab fitting the
// parent's per-element limit (computed independently from sizes), value id unchanged (C10).
func OInline(w *World) error {
	_, _, _, maxArr, maxMapElem, _ := atree.VerifThresholds()
	wk := w.DoWalk()
	if len(wk.Broken) > 0 {
		return violf("nested: %s", wk.Broken[0])
	}
	var visit func(s atree.Storable, limit uint32, where string) error
	visitSlabElems := func(info *atree.VerifSlabInfo) error {
		switch info.Kind {
		case "arrayData":
			for i, e := range info.Elements {
				if err := visit(e, maxArr, fmt.Sprintf("%s[%d]", info.SlabID, i)); err != nil {
					return err
				}
			}
		case "mapData":
			var walkE func(es []atree.VerifElem) error
			walkE = func(es []atree.VerifElem) error {
				for _, e := range es {
					switch e.Kind {
					case "single":
						lim := maxMapElem - e.Key.ByteSize() - 1
						if err := visit(e.Value, lim, fmt.Sprintf("%s{%v}", info.SlabID, e.Key)); err != nil {
							return err
						}
					case "inlineGroup":
						if err := walkE(e.Elems); err != nil {
							return err
						}
					}
				}
				return nil
			}
			return walkE(info.MapElems)
		}
		return nil
	}
	visit = func(s atree.Storable, limit uint32, where string) error {
		wrapSize := uint32(0)
		for {
			ss, ok := s.(tu.SomeStorable)
			if !ok {
				break
			}
			_ = ss
			// wrapper prefix: recompute from the whole wrapper chain once
			inner := unwrapStorable(s)
			wrapSize = s.ByteSize() - inner.ByteSize()
			s = inner
			break
		}
		if limit < wrapSize {
			limit = 0
		} else {
			limit -= wrapSize
		}
		switch s := s.(type) {
		case atree.SlabIDStorable:
			r := wk.ByID[atree.SlabID(s)]
			if r == nil {
				return nil
			}
			if r.Info.Kind == "storable" {
				return nil
			}
			if !r.Info.HasExtraData {
				return violf("nested: %s references non-root slab %s", where, r.ID)
			}
			// A standalone child: it must NOT be inlinable.
			if (r.Info.Kind == "arrayData" || r.Info.Kind == "mapData") && !r.Info.Inlined {
				inl := inlinedSizeOf(&r.Info)
				if inl <= limit {
					return violf("nested: child %s at %s is a single slab of inlined size %d <= limit %d but stored separately", r.ID, where, inl, limit)
				}
			}
		case atree.Slab:
			info := atree.VerifDescribeSlab(s)
			if !info.Inlined {
				return violf("nested: slab %s embedded at %s is not marked inlined", info.SlabID, where)
			}
			if info.HeaderSize > limit {
				return violf("nested: inlined child %s at %s has size %d > limit %d", info.SlabID, where, info.HeaderSize, limit)
			}
			if err := visitSlabElems(&info); err != nil {
				return err
			}
		}
		return nil
	}
	for i := range wk.Recs {
		if err := visitSlabElems(&wk.Recs[i].Info); err != nil {
			return err
		}
	}
	return nil
}

// inlinedSizeOf computes the size a standalone single-slab container would have if inlined.
func inlinedSizeOf(info *atree.VerifSlabInfo) uint32 {
	switch info.Kind {
	case "arrayData":
		return info.HeaderSize - (2 + 3) + (2 + 1 + 2 + 1 + 8 + 3)
	case "mapData":
		return info.HeaderSize - 2 + (2 + 1 + 2 + 1 + 8)
	}
	return ^uint32(0)
}

// OSizeInMemory: nothing yet beyond what OStructIndependent asserts about header sizes.
func OSizeInMemory(w *World) error { return nil }

// hasCompactMap reports whether the encoded register uses the compact-map tag anywhere.
func hasCompactMap(b []byte) bool {
	return bytes.Contains(b, []byte{0xd8, atree.CBORTagInlinedCompactMap})
}

// ORegister checks one committed register against the in-memory slab that produced it:
// size accounting (C06) and round trip + header flags (C07).
func ORegister(w *World, id atree.SlabID, data []byte, mem atree.Slab, size, rt bool) error {
	lay, err := ParseRegLayout(data)
	if err != nil {
		return violf("register %s: layout does not parse: %x", id, data)
	}
	dec, err := atree.DecodeSlab(id, data, decMode, DecodeStorable, DecodeTypeInfo)
	if err != nil {
		return violf("register %s does not decode: %v", id, err)
	}
	if size {
		written := uint32(len(data) - lay.ExtraLen - lay.InlinedLen)
		reported := dec.ByteSize()
		if mem != nil && mem.ByteSize() != reported {
			return violf("register %s: in-memory slab reports size %d, decoded slab reports %d", id, mem.ByteSize(), reported)
		}
		compact := hasCompactMap(data)
		switch {
		case written == reported:
		case (lay.Kind == "arrayData" || lay.Kind == "mapData" || lay.Kind == "collisionGroup") && !lay.Root && !lay.HasNext && written+16 == reported:
			// documented saving: empty sibling link omitted
		case compact && written < reported:
			// documented saving: compact map keys hoisted (may combine with the omitted link)
		default:
			return violf("register %s (%s): %d bytes written (without extra-data sections), slab reports size %d", id, lay.Kind, written, reported)
		}
	}
	if rt {
		re, err := atree.EncodeSlab(dec, encMode)
		if err != nil {
			return violf("register %s: re-encoding the decoded slab failed: %v", id, err)
		}
		if !bytes.Equal(re, data) {
			return violf("register %s: decode→re-encode is not the identity:\n  was %x\n  now %x", id, data, re)
		}
		if mem != nil && !hasCompactMap(data) {
			a := renderSlab(atree.VerifDescribeSlab(mem))
			b := renderSlab(atree.VerifDescribeSlab(dec))
			if a != b {
				return violf("register %s: decoded slab differs from the encoded one:\n  mem %s\n  dec %s", id, a, b)
			}
		}
		// header flags
		if r, err := atree.IsRootOfAnObject(data); err != nil || r != lay.Root {
			return violf("register %s: IsRootOfAnObject = %v,%v; flag bit says %v", id, r, err, lay.Root)
		}
		info := atree.VerifDescribeSlab(dec)
		if lay.Root != info.HasExtraData {
			return violf("register %s: root flag %v but slab carries extra data: %v", id, lay.Root, info.HasExtraData)
		}
		hp, err := atree.HasPointers(data)
		if err != nil {
			return violf("register %s: HasPointers failed: %v", id, err)
		}
		if info.Kind == "arrayData" || info.Kind == "mapData" || info.Kind == "storable" {
			want := slabHasReference(&info)
			if hp != want {
				return violf("register %s (%s): HasPointers = %v, content has references: %v", id, info.Kind, hp, want)
			}
		}
		sl, err := atree.HasSizeLimit(data)
		if err != nil {
			return violf("register %s: HasSizeLimit failed: %v", id, err)
		}
		wantSL := !(info.Kind == "storable" || info.Kind == "mapData" && info.CollisionGroup && info.AnySize)
		if info.Kind == "mapData" && info.AnySize {
			wantSL = false
		}
		if sl != wantSL {
			return violf("register %s (%s): HasSizeLimit = %v, want %v", id, info.Kind, sl, wantSL)
		}
	}
	return nil
}

// slabHasReference: a slab reference occurs anywhere in the element storables (through inlined
// children and wrappers), or an external collision group is present.
func slabHasReference(info *atree.VerifSlabInfo) bool {
	var st func(s atree.Storable) bool
	var el func(es []atree.VerifElem) bool
	st = func(s atree.Storable) bool {
		switch s := s.(type) {
		case atree.SlabIDStorable:
			return true
		case tu.SomeStorable:
			return st(s.Storable)
		case atree.Slab:
			sub := atree.VerifDescribeSlab(s)
			return slabHasReference(&sub)
		}
		return false
	}
	el = func(es []atree.VerifElem) bool {
		for _, e := range es {
			switch e.Kind {
			case "single":
				if st(e.Key) || st(e.Value) {
					return true
				}
			case "inlineGroup":
				if el(e.Elems) {
					return true
				}
			case "externalGroup":
				return true
			}
		}
		return false
	}
	for _, e := range info.Elements {
		if st(e) {
			return true
		}
	}
	return el(info.MapElems)
}

// renderSlab renders a slab projection with element encodings (content, not just sizes).
func renderSlab(info atree.VerifSlabInfo) string {
	var sb strings.Builder
	fmt.Fprintf(&sb, "%s id=%s next=%s size=%d count=%d fk=%x x=%v inl=%v any=%v cg=%v", info.Kind, info.SlabID, info.Next,
		info.HeaderSize, info.HeaderCount, info.FirstKey, info.HasExtraData, info.Inlined, info.AnySize, info.CollisionGroup)
	if info.HasExtraData {
		fmt.Fprintf(&sb, " type=%s mc=%d seed=%d", tiText(info.TypeInfo), info.MapCount, info.MapSeed)
	}
	for _, c := range info.Children {
		fmt.Fprintf(&sb, " ch(%s %d %d %x)", c.SlabID, c.Size, c.Count, c.FirstKey)
	}
	fmt.Fprintf(&sb, " sums=%v", info.CountSums)
	var st func(s atree.Storable) string
	st = func(s atree.Storable) string {
		if sub, ok := s.(atree.Slab); ok {
			return "[" + renderSlab(atree.VerifDescribeSlab(sub)) + "]"
		}
		if ss, ok := s.(tu.SomeStorable); ok {
			return "some(" + st(ss.Storable) + ")"
		}
		b, err := encodeStorable(s)
		if err != nil {
			return "ERR:" + err.Error()
		}
		return fmt.Sprintf("%x", b)
	}
	for _, e := range info.Elements {
		sb.WriteString(" e:" + st(e))
	}
	var el func(es []atree.VerifElem)
	el = func(es []atree.VerifElem) {
		for _, e := range es {
			fmt.Fprintf(&sb, " <%s d=%x sz=%d", e.Kind, e.Digest, e.Size)
			switch e.Kind {
			case "single":
				sb.WriteString(" k:" + st(e.Key) + " v:" + st(e.Value))
			case "inlineGroup":
				fmt.Fprintf(&sb, " L%d list=%v", e.Level, e.ListKind)
				el(e.Elems)
			case "externalGroup":
				fmt.Fprintf(&sb, " ext=%s", e.GroupID)
			}
			sb.WriteString(">")
		}
	}
	fmt.Fprintf(&sb, " L%d list=%v esz=%d", info.MapLevel, info.MapListKind, info.MapElemsSize)
	el(info.MapElems)
	return sb.String()
}

// OHealth: the library's storage health check agrees (second opinion; C20 decides its trustworthiness).
func OHealth(w *World) error {
	// load everything
	ids := w.Ledger.SortedIDs()
	if err := w.St.BatchPreload(ids, 1); err != nil {
		return violf("BatchPreload failed: %v", err)
	}
	nRoots := 0
	want := map[atree.SlabID]bool{}
	for _, c := range w.LiveRoots() {
		if c.SID.HasTempAddress() {
			continue
		}
		nRoots++
		want[c.SID] = true
	}
	roots, err := atree.CheckStorageHealth(w.St, nRoots)
	if err != nil {
		return violf("CheckStorageHealth fails on a storage produced by a valid history: %v", err)
	}
	var got []string
	for id := range roots {
		if !want[id] {
			return violf("CheckStorageHealth reports root %s which is not a live root", id)
		}
		got = append(got, id.String())
	}
	sort.Strings(got)
	if len(roots) != nRoots {
		return violf("CheckStorageHealth reports %d roots (%v), want %d", len(roots), got, nRoots)
	}
	return nil
}

// injectOnCopy runs OInject; it only reads through the containers and finally commits, which the
// remaining oracles tolerate (they commit themselves).
func injectOnCopy(w *World, keys []int) error {
	return OInject(w, keys)
}

// OFormerParent: after a mutation through a stale handle, the former parent's content, structure
// and persisted form are what its model says (C11).  Nothing else is judged: the container that
// was mutated through two different handles is outside the claims.
func OFormerParent(w *World, fp *Cont) error {
	root := fp
	for root.Parent != nil {
		root = root.Parent
	}
	if root.Dead {
		return nil
	}
	if err := w.EnsureHandle(root); err != nil {
		return err
	}
	check := func(ww *World, r *Cont, when string) error {
		var err error
		if r.IsMap {
			err = ww.CmpMap(r.Map, r)
		} else {
			err = ww.CmpArray(r.Arr, r)
		}
		if err != nil {
			return wrapViol(err, "former parent changed by a mutation through a stale handle ("+when+"): ")
		}
		ti := ww.typeInfo(r.TypeID, r.Comp)
		if r.IsMap {
			err = atree.VerifyMap(r.Map, r.SID.Address(), ti, CompareTypeInfo, GetHashInput, true)
		} else {
			err = atree.VerifyArray(r.Arr, r.SID.Address(), ti, CompareTypeInfo, GetHashInput, true)
		}
		if err != nil {
			return violf("former parent's bookkeeping changed by a mutation through a stale handle (%s): %v", when, err)
		}
		return nil
	}
	if err := check(w, root, "in memory"); err != nil {
		return err
	}
	// persisted form: encode only the slabs reachable from the former parent's root
	wk := w.DoWalk()
	tmp := NewLedger()
	for _, r := range wk.Recs {
		if r.Root != root.Serial {
			continue
		}
		b, err := atree.EncodeSlab(r.Slab, encMode)
		if err != nil {
			return violf("former parent: slab %s does not encode after a stale-handle mutation: %v", r.ID, err)
		}
		tmp.Regs[r.ID] = b
	}
	rec := &World{T: w.T, Ledger: tmp, Addr: w.Addr, Digests: w.Digests, KeyOf: w.KeyOf, KeyUniverse: w.KeyUniverse}
	rec.St = NewStorage(tmp)
	rec.Conts = cloneConts(w.Conts)
	var rroot *Cont
	for _, c := range rec.Conts {
		if c.Serial == root.Serial {
			rroot = c
		}
	}
	if err := rec.EnsureHandle(rroot); err != nil {
		return wrapViol(err, "former parent (persisted form): ")
	}
	return check(rec, rroot, "persisted form")
}

// LookupCheck reads every element of every live root by position / key (Get) and compares it with
// the model.  Get installs callbacks, so this runs only on worlds that are thrown away afterwards.
func (w *World) LookupCheck() error {
	for _, c := range w.LiveRoots() {
		if c.SID.HasTempAddress() && w.Commits > 0 && (c.Arr == nil && c.Map == nil) {
			continue
		}
		if err := w.EnsureHandle(c); err != nil {
			return err
		}
		if c.IsMap {
			for i, k := range c.Keys {
				v, err := c.Map.Get(CompareValue, GetHashInput, ToAtree(k))
				if err != nil {
					return violf("map c%d Get(%s): %v", c.Serial, MVString(k), err)
				}
				if err := w.CmpValue(v, c.Vals[i]); err != nil {
					return wrapViol(err, fmt.Sprintf("map c%d Get(%s): ", c.Serial, MVString(k)))
				}
			}
			continue
		}
		n := len(c.Elems)
		for i := 0; i < n; i++ {
			v, err := c.Arr.Get(uint64(i))
			if err != nil {
				return violf("array c%d Get(%d): %v", c.Serial, i, err)
			}
			if err := w.CmpValue(v, c.Elems[i]); err != nil {
				return wrapViol(err, fmt.Sprintf("array c%d Get(%d): ", c.Serial, i))
			}
		}
	}
	return nil
}
