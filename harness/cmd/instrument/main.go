// Command instrument rewrites the current non-test sources of package atree so that every
// goroutine start, channel operation, sync.Pool / sync.WaitGroup operation and range over a Go
// map goes through package vsched.  Output: rewritten copies of the files that contain such a
// construct plus an overlay JSON for `go build -overlay`.  /repo itself is not touched.
//
// Any concurrency construct the rewriter does not know makes it exit with status 2 and a message
// naming the position: a tool error, never a silent pass.
package main

import (
	"bytes"
	"encoding/json"
	"fmt"
	"go/ast"
	"go/build"
	"go/importer"
	"go/parser"
	"go/printer"
	"go/token"
	"go/types"
	"os"
	"path/filepath"
	"sort"
	"strings"
)

const vschedPath = "github.com/onflow/atree/vsched"

type rewriter struct {
	fset    *token.FileSet
	info    *types.Info
	file    *ast.File
	changed bool
	needV   bool
	counts  map[string]int
	errs    []string
	tmp     int
}

func (r *rewriter) errorf(pos token.Pos, format string, a ...any) {
	r.errs = append(r.errs, fmt.Sprintf("%s: %s", r.fset.Position(pos), fmt.Sprintf(format, a...)))
}

func vcall(name string, args ...ast.Expr) *ast.CallExpr {
	return &ast.CallExpr{Fun: &ast.SelectorExpr{X: ast.NewIdent("vsched"), Sel: ast.NewIdent(name)}, Args: args}
}

func (r *rewriter) typeOf(e ast.Expr) types.Type {
	if tv, ok := r.info.Types[e]; ok && tv.Type != nil {
		return tv.Type.Underlying()
	}
	return nil
}

func isRecv(e ast.Expr) (*ast.UnaryExpr, bool) {
	u, ok := e.(*ast.UnaryExpr)
	if ok && u.Op == token.ARROW {
		return u, true
	}
	return nil, false
}

// stmts rewrites a statement list.
func (r *rewriter) stmts(list []ast.Stmt) []ast.Stmt {
	var out []ast.Stmt
	for _, s := range list {
		out = append(out, r.stmt(s)...)
	}
	return out
}

func (r *rewriter) block(b *ast.BlockStmt) {
	if b != nil {
		b.List = r.stmts(b.List)
	}
}

// funcLits rewrites bodies of function literals reachable from an expression.
func (r *rewriter) exprFuncLits(e ast.Node) {
	if e == nil {
		return
	}
	ast.Inspect(e, func(n ast.Node) bool {
		if fl, ok := n.(*ast.FuncLit); ok {
			r.block(fl.Body)
			return false
		}
		return true
	})
}

func (r *rewriter) stmt(s ast.Stmt) []ast.Stmt {
	switch s := s.(type) {
	case *ast.BlockStmt:
		r.block(s)
	case *ast.IfStmt:
		if s.Init != nil {
			in := r.stmt(s.Init)
			if len(in) == 1 {
				s.Init = in[0]
			}
		}
		r.exprFuncLits(s.Cond)
		r.block(s.Body)
		if s.Else != nil {
			el := r.stmt(s.Else)
			if len(el) == 1 {
				s.Else = el[0]
			}
		}
	case *ast.ForStmt:
		r.block(s.Body)
	case *ast.SwitchStmt:
		for _, c := range s.Body.List {
			cc := c.(*ast.CaseClause)
			cc.Body = r.stmts(cc.Body)
		}
	case *ast.TypeSwitchStmt:
		for _, c := range s.Body.List {
			cc := c.(*ast.CaseClause)
			cc.Body = r.stmts(cc.Body)
		}
	case *ast.LabeledStmt:
		in := r.stmt(s.Stmt)
		if len(in) == 1 {
			s.Stmt = in[0]
		} else {
			r.errorf(s.Pos(), "labeled statement needs a multi-statement rewrite")
		}
	case *ast.RangeStmt:
		return r.rangeStmt(s)
	case *ast.GoStmt:
		return r.goStmt(s)
	case *ast.SendStmt:
		r.changed, r.needV = true, true
		r.counts["send"]++
		return []ast.Stmt{&ast.ExprStmt{X: vcall("Send", s.Chan, s.Value)}}
	case *ast.SelectStmt:
		return r.selectStmt(s)
	case *ast.DeferStmt:
		if id, ok := s.Call.Fun.(*ast.Ident); ok && id.Name == "close" && len(s.Call.Args) == 1 {
			r.changed, r.needV = true, true
			r.counts["close"]++
			s.Call = vcall("Close", s.Call.Args[0])
			return []ast.Stmt{s}
		}
		r.exprFuncLits(s.Call)
	case *ast.ExprStmt:
		if u, ok := isRecv(s.X); ok {
			r.changed, r.needV = true, true
			r.counts["recv"]++
			s.X = vcall("Recv", u.X)
			return []ast.Stmt{s}
		}
		if c, ok := s.X.(*ast.CallExpr); ok {
			if id, ok := c.Fun.(*ast.Ident); ok && id.Name == "close" && len(c.Args) == 1 {
				if _, isChan := r.typeOf(c.Args[0]).(*types.Chan); isChan {
					r.changed, r.needV = true, true
					r.counts["close"]++
					s.X = vcall("Close", c.Args[0])
					return []ast.Stmt{s}
				}
			}
		}
		r.exprFuncLits(s.X)
	case *ast.AssignStmt:
		if len(s.Rhs) == 1 {
			if u, ok := isRecv(s.Rhs[0]); ok {
				r.changed, r.needV = true, true
				r.counts["recv"]++
				if len(s.Lhs) == 2 {
					s.Rhs[0] = vcall("Recv2", u.X)
				} else {
					s.Rhs[0] = vcall("Recv", u.X)
				}
				return []ast.Stmt{s}
			}
		}
		for _, e := range s.Rhs {
			r.exprFuncLits(e)
		}
	case *ast.DeclStmt:
		r.exprFuncLits(s.Decl)
	case *ast.ReturnStmt:
		for _, e := range s.Results {
			r.exprFuncLits(e)
		}
	}
	return []ast.Stmt{s}
}

func (r *rewriter) fresh(prefix string) string {
	r.tmp++
	return fmt.Sprintf("%s%d_", prefix, r.tmp)
}

func (r *rewriter) rangeStmt(s *ast.RangeStmt) []ast.Stmt {
	t := r.typeOf(s.X)
	switch t.(type) {
	case *types.Chan:
		r.changed, r.needV = true, true
		r.counts["range-chan"]++
		r.block(s.Body)
		if s.Tok != token.DEFINE && s.Key != nil {
			r.errorf(s.Pos(), "range over channel with '=' is not supported")
			return []ast.Stmt{s}
		}
		var key ast.Expr = ast.NewIdent("_")
		if s.Key != nil {
			key = s.Key
		}
		ok := ast.NewIdent(r.fresh("vok"))
		recv := &ast.AssignStmt{Lhs: []ast.Expr{key, ok}, Tok: token.DEFINE, Rhs: []ast.Expr{vcall("Recv2", s.X)}}
		brk := &ast.IfStmt{Cond: &ast.UnaryExpr{Op: token.NOT, X: ok}, Body: &ast.BlockStmt{List: []ast.Stmt{&ast.BranchStmt{Tok: token.BREAK}}}}
		body := append([]ast.Stmt{recv, brk}, s.Body.List...)
		return []ast.Stmt{&ast.ForStmt{Body: &ast.BlockStmt{List: body}}}
	case *types.Map:
		r.changed, r.needV = true, true
		r.counts["range-map"]++
		r.block(s.Body)
		if s.Tok != token.DEFINE {
			r.errorf(s.Pos(), "range over map without ':=' is not supported")
			return []ast.Stmt{s}
		}
		var key *ast.Ident
		if id, ok := s.Key.(*ast.Ident); ok && id.Name != "_" {
			key = id
		} else {
			key = ast.NewIdent(r.fresh("vkey"))
		}
		var pre []ast.Stmt
		ok := ast.NewIdent(r.fresh("vok"))
		var val ast.Expr = ast.NewIdent("_")
		if id, isId := s.Value.(*ast.Ident); s.Value != nil && isId && id.Name != "_" {
			val = s.Value
		}
		pre = append(pre, &ast.AssignStmt{Lhs: []ast.Expr{val, ok}, Tok: token.DEFINE, Rhs: []ast.Expr{&ast.IndexExpr{X: s.X, Index: key}}})
		pre = append(pre, &ast.IfStmt{Cond: &ast.UnaryExpr{Op: token.NOT, X: ok}, Body: &ast.BlockStmt{List: []ast.Stmt{&ast.BranchStmt{Tok: token.CONTINUE}}}})
		ns := &ast.RangeStmt{Key: ast.NewIdent("_"), Value: key, Tok: token.DEFINE, X: vcall("MapKeys", s.X), Body: &ast.BlockStmt{List: append(pre, s.Body.List...)}}
		return []ast.Stmt{ns}
	}
	r.block(s.Body)
	return []ast.Stmt{s}
}

func (r *rewriter) goStmt(s *ast.GoStmt) []ast.Stmt {
	r.changed, r.needV = true, true
	r.counts["go"]++
	r.exprFuncLits(s.Call.Fun)
	// pre-evaluate function value and arguments
	var lhs, rhs []ast.Expr
	fn := ast.NewIdent(r.fresh("vfn"))
	lhs = append(lhs, fn)
	rhs = append(rhs, s.Call.Fun)
	var args []ast.Expr
	for _, a := range s.Call.Args {
		id := ast.NewIdent(r.fresh("varg"))
		lhs = append(lhs, id)
		rhs = append(rhs, a)
		args = append(args, id)
	}
	asg := &ast.AssignStmt{Lhs: lhs, Tok: token.DEFINE, Rhs: rhs}
	call := &ast.CallExpr{Fun: fn, Args: args, Ellipsis: s.Call.Ellipsis}
	lit := &ast.FuncLit{Type: &ast.FuncType{Params: &ast.FieldList{}}, Body: &ast.BlockStmt{List: []ast.Stmt{&ast.ExprStmt{X: call}}}}
	return []ast.Stmt{&ast.BlockStmt{List: []ast.Stmt{asg, &ast.ExprStmt{X: vcall("Go", lit)}}}}
}

func (r *rewriter) selectStmt(s *ast.SelectStmt) []ast.Stmt {
	// supported: exactly one receive case without assignment, plus default
	var recvCase, defCase *ast.CommClause
	for _, c := range s.Body.List {
		cc := c.(*ast.CommClause)
		if cc.Comm == nil {
			defCase = cc
			continue
		}
		if recvCase != nil {
			r.errorf(s.Pos(), "select with more than one communication case is not supported")
			return []ast.Stmt{s}
		}
		recvCase = cc
	}
	if recvCase == nil || defCase == nil {
		r.errorf(s.Pos(), "select without default (or without a receive case) is not supported")
		return []ast.Stmt{s}
	}
	es, ok := recvCase.Comm.(*ast.ExprStmt)
	if !ok {
		r.errorf(s.Pos(), "select case with assignment or send is not supported")
		return []ast.Stmt{s}
	}
	u, ok := isRecv(es.X)
	if !ok {
		r.errorf(s.Pos(), "select case is not a receive")
		return []ast.Stmt{s}
	}
	r.changed, r.needV = true, true
	r.counts["select-default"]++
	ifs := &ast.IfStmt{Cond: vcall("SelectRecvDefault", u.X), Body: &ast.BlockStmt{List: r.stmts(recvCase.Body)}}
	if len(defCase.Body) > 0 {
		ifs.Else = &ast.BlockStmt{List: r.stmts(defCase.Body)}
	}
	return []ast.Stmt{ifs}
}

// leftovers reports constructs that survived the rewrite.
func (r *rewriter) leftovers() {
	ast.Inspect(r.file, func(n ast.Node) bool {
		switch n := n.(type) {
		case *ast.GoStmt:
			r.errorf(n.Pos(), "unrewritten go statement")
		case *ast.SendStmt:
			r.errorf(n.Pos(), "unrewritten channel send")
		case *ast.SelectStmt:
			r.errorf(n.Pos(), "unrewritten select")
		case *ast.UnaryExpr:
			if n.Op == token.ARROW {
				r.errorf(n.Pos(), "unrewritten channel receive (unsupported position)")
			}
		case *ast.RangeStmt:
			// rewritten range statements iterate over vsched.MapKeys(...) (a slice)
		case *ast.CallExpr:
			if id, ok := n.Fun.(*ast.Ident); ok && id.Name == "close" {
				r.errorf(n.Pos(), "unrewritten close")
			}
		}
		return true
	})
}

func main() {
	if len(os.Args) < 4 {
		fmt.Fprintln(os.Stderr, "usage: instrument <repo dir> <out dir> <vsched source file>")
		os.Exit(2)
	}
	repo, outDir, vsrc := os.Args[1], os.Args[2], os.Args[3]
	poolsOnly := len(os.Args) > 4 && os.Args[4] == "--pools-only"
	if poolsOnly {
		os.Exit(poolsOnlyMain(repo, outDir, vsrc))
	}
	os.RemoveAll(outDir)
	os.MkdirAll(outDir, 0o755)
	ctx := build.Default
	ctx.BuildTags = append(ctx.BuildTags, "verif")
	pkg, err := ctx.ImportDir(repo, 0)
	if err != nil {
		fmt.Fprintln(os.Stderr, "instrument:", err)
		os.Exit(2)
	}
	fset := token.NewFileSet()
	var files []*ast.File
	names := append([]string{}, pkg.GoFiles...)
	sort.Strings(names)
	for _, n := range names {
		f, err := parser.ParseFile(fset, filepath.Join(repo, n), nil, parser.ParseComments)
		if err != nil {
			fmt.Fprintln(os.Stderr, "instrument:", err)
			os.Exit(2)
		}
		files = append(files, f)
	}
	info := &types.Info{Types: map[ast.Expr]types.TypeAndValue{}}
	conf := types.Config{Importer: importer.ForCompiler(fset, "source", nil), Error: func(err error) {}}
	if _, err := conf.Check("github.com/onflow/atree", fset, files, info); err != nil {
		// type errors make the range classification unreliable
		fmt.Fprintln(os.Stderr, "instrument: type check:", err)
		os.Exit(2)
	}
	overlay := map[string]string{}
	total := map[string]int{}
	var allErrs []string
	for i, f := range files {
		r := &rewriter{fset: fset, info: info, file: f, counts: map[string]int{}}
		// sync import -> shim
		for _, imp := range f.Imports {
			if imp.Path.Value == `"sync"` {
				imp.Path.Value = `"` + vschedPath + `"`
				imp.Name = ast.NewIdent("sync")
				r.changed = true
				r.counts["sync-import"]++
			}
			if imp.Path.Value == `"sync/atomic"` {
				r.errorf(imp.Pos(), "sync/atomic is not modelled")
			}
		}
		for _, d := range f.Decls {
			if fd, ok := d.(*ast.FuncDecl); ok && fd.Body != nil {
				r.block(fd.Body)
			}
			if gd, ok := d.(*ast.GenDecl); ok {
				r.exprFuncLits(gd)
			}
		}
		r.leftovers()
		allErrs = append(allErrs, r.errs...)
		if !r.changed {
			continue
		}
		if r.needV {
			// add the vsched import
			spec := &ast.ImportSpec{Name: ast.NewIdent("vsched"), Path: &ast.BasicLit{Kind: token.STRING, Value: `"` + vschedPath + `"`}}
			added := false
			for _, d := range f.Decls {
				if gd, ok := d.(*ast.GenDecl); ok && gd.Tok == token.IMPORT {
					gd.Specs = append(gd.Specs, spec)
					if !gd.Lparen.IsValid() {
						gd.Lparen = gd.Pos()
						gd.Rparen = gd.End()
					}
					added = true
					break
				}
			}
			if !added {
				f.Decls = append([]ast.Decl{&ast.GenDecl{Tok: token.IMPORT, Specs: []ast.Spec{spec}}}, f.Decls...)
			}
		}
		var buf bytes.Buffer
		// drop comments: positions of synthesized nodes would misplace them
		f.Comments = nil
		if err := printer.Fprint(&buf, fset, f); err != nil {
			fmt.Fprintln(os.Stderr, "instrument: print:", err)
			os.Exit(2)
		}
		src := buf.String()
		if strings.Contains(names[i], "verif_hooks") {
			src = "//go:build verif\n\n" + src
		}
		out := filepath.Join(outDir, names[i])
		if err := os.WriteFile(out, []byte(src), 0o644); err != nil {
			fmt.Fprintln(os.Stderr, "instrument:", err)
			os.Exit(2)
		}
		overlay[filepath.Join(repo, names[i])] = out
		for k, v := range r.counts {
			total[k] += v
		}
	}
	if len(allErrs) > 0 {
		for _, e := range allErrs {
			fmt.Fprintln(os.Stderr, "instrument: unsupported construct:", e)
		}
		os.Exit(2)
	}
	overlay[filepath.Join(repo, "vsched", "vsched.go")] = vsrc
	ob, _ := json.MarshalIndent(map[string]any{"Replace": overlay}, "", " ")
	if err := os.WriteFile(filepath.Join(outDir, "overlay.json"), ob, 0o644); err != nil {
		fmt.Fprintln(os.Stderr, "instrument:", err)
		os.Exit(2)
	}
	keys := make([]string, 0, len(total))
	for k := range total {
		keys = append(keys, k)
	}
	sort.Strings(keys)
	var parts []string
	for _, k := range keys {
		parts = append(parts, fmt.Sprintf("%s=%d", k, total[k]))
	}
	fmt.Printf("instrumented %d files: %s\n", len(overlay)-1, strings.Join(parts, " "))
}

// poolsOnlyMain is the light-weight mode used by the sequential checks: only files whose sole use of
// package sync is sync.Pool get their import redirected to the deterministic LIFO pool shim, so that
// object reuse through the process-wide pools is immediate and reproducible in every execution.
func poolsOnlyMain(repo, outDir, vsrc string) int {
	os.RemoveAll(outDir)
	os.MkdirAll(outDir, 0o755)
	ctx := build.Default
	ctx.BuildTags = append(ctx.BuildTags, "verif")
	pkg, err := ctx.ImportDir(repo, 0)
	if err != nil {
		fmt.Fprintln(os.Stderr, "instrument:", err)
		return 2
	}
	overlay := map[string]string{}
	fset := token.NewFileSet()
	n := 0
	for _, name := range pkg.GoFiles {
		path := filepath.Join(repo, name)
		f, err := parser.ParseFile(fset, path, nil, parser.ParseComments)
		if err != nil {
			fmt.Fprintln(os.Stderr, "instrument:", err)
			return 2
		}
		var syncImp *ast.ImportSpec
		for _, imp := range f.Imports {
			if imp.Path.Value == `"sync"` && imp.Name == nil {
				syncImp = imp
			}
		}
		if syncImp == nil {
			continue
		}
		onlyPool := true
		ast.Inspect(f, func(nd ast.Node) bool {
			if se, ok := nd.(*ast.SelectorExpr); ok {
				if id, ok := se.X.(*ast.Ident); ok && id.Name == "sync" && se.Sel.Name != "Pool" {
					onlyPool = false
				}
			}
			return true
		})
		if !onlyPool {
			continue
		}
		src, err := os.ReadFile(path)
		if err != nil {
			return 2
		}
		// textual replacement of the import spec keeps everything else byte-identical
		start := fset.Position(syncImp.Path.Pos()).Offset
		end := fset.Position(syncImp.Path.End()).Offset
		out := string(src[:start]) + `sync "` + vschedPath + `"` + string(src[end:])
		dst := filepath.Join(outDir, name)
		if err := os.WriteFile(dst, []byte(out), 0o644); err != nil {
			return 2
		}
		overlay[path] = dst
		n++
	}
	if n == 0 {
		fmt.Fprintln(os.Stderr, "instrument: no file with a sync.Pool-only use of package sync")
		return 2
	}
	overlay[filepath.Join(repo, "vsched", "vsched.go")] = vsrc
	ob, _ := json.MarshalIndent(map[string]any{"Replace": overlay}, "", " ")
	if err := os.WriteFile(filepath.Join(outDir, "overlay.json"), ob, 0o644); err != nil {
		return 2
	}
	fmt.Printf("pool shim applied to %d files\n", n)
	return 0
}
