package main

import (
	"os"

	"verif/vf"
)

func main() {
	os.Exit(vf.Main(os.Args[1:]))
}
