// Package vsched is injected into package atree (as github.com/onflow/atree/vsched, through
// `go build -overlay`) by the verification harness.  It replaces sync.Pool / sync.WaitGroup and
// wraps goroutine creation, channel operations and map iteration of the instrumented sources so
// that a controller can decide every scheduling choice.  Without a controller every hook falls
// through to the real primitive (used by the free-running -race pass).
package vsched

import (
	"fmt"
	"reflect"
	"sort"
	"sync"
)

// ---------------------------------------------------------------------------------------------
// Controller

// Point describes one choice point handed to the chooser.
type Point struct {
	Kind    string // "thread" or "maporder"
	N       int    // number of options (>= 1); option 0 is the default
	Running bool   // thread points: option 0 is the goroutine that ran last and is still enabled
	Desc    []string
}

// Chooser returns the option to take at a choice point (0 <= result < p.N).
type Chooser func(p Point) int

type gor struct {
	id     int
	resume chan struct{}
	op     *pendingOp
	done   bool
	poison bool
}

type pendingOp struct {
	kind    string
	obj     uintptr
	enabled func() bool
}

type sched struct {
	gs      []*gor
	events  chan *gor
	current *gor
	choose  Chooser
	closed  map[uintptr]bool
	keep    []any // closed channels are kept alive so that their address is not reused
	err     string
	steps   int
	aborted bool
}

var active *sched

// Active reports whether a controller is attached.
func Active() bool { return active != nil }

// Result of a controlled run.
type Result struct {
	Err        string // deadlock, panic in a goroutine, pool poison, step limit
	Steps      int
	Goroutines int
}

// Run executes body under the controller: body and every goroutine it starts through Go run one
// at a time; chooser decides which enabled goroutine continues at every hook.
func Run(body func(), chooser Chooser) Result {
	if active != nil {
		panic("vsched: nested Run")
	}
	s := &sched{events: make(chan *gor), choose: chooser, closed: map[uintptr]bool{}}
	active = s
	defer func() { active = nil }()
	resetPools()
	g0 := s.newGor()
	go s.runGor(g0, body)
	s.loop()
	return Result{Err: s.err, Steps: s.steps, Goroutines: len(s.gs)}
}

func (s *sched) newGor() *gor {
	g := &gor{id: len(s.gs), resume: make(chan struct{})}
	g.op = &pendingOp{kind: "start", enabled: func() bool { return true }}
	s.gs = append(s.gs, g)
	return g
}

type abortSignal struct{}

func (s *sched) runGor(g *gor, f func()) {
	<-g.resume
	defer func() {
		if r := recover(); r != nil {
			if _, ok := r.(abortSignal); !ok && s.err == "" {
				s.err = fmt.Sprintf("panic in goroutine %d: %v", g.id, r)
			}
		}
		g.done = true
		g.op = nil
		s.events <- g
	}()
	if g.poison {
		return
	}
	f()
}

// park is called by the running goroutine at a hook.
func (s *sched) park(op *pendingOp) {
	g := s.current
	g.op = op
	s.events <- g
	<-g.resume
	g.op = nil
	if g.poison {
		panic(abortSignal{})
	}
}

const stepLimit = 200000

func (s *sched) loop() {
	// start goroutine 0
	var last *gor
	for {
		// choose among parked goroutines with an enabled operation
		var en []*gor
		alive := 0
		for _, g := range s.gs {
			if g.done {
				continue
			}
			alive++
			if g.op != nil && g.op.enabled() {
				en = append(en, g)
			}
		}
		if alive == 0 {
			return
		}
		if len(en) == 0 {
			var ds []string
			for _, g := range s.gs {
				if !g.done && g.op != nil {
					ds = append(ds, fmt.Sprintf("g%d blocked on %s", g.id, g.op.kind))
				}
			}
			if s.err == "" {
				s.err = fmt.Sprintf("deadlock: %v", ds)
			}
			s.abort()
			return
		}
		s.steps++
		if s.steps > stepLimit {
			if s.err == "" {
				s.err = "step limit reached (livelock?)"
			}
			s.abort()
			return
		}
		// canonical order: the goroutine that ran last first (if enabled), then ascending ids
		sort.Slice(en, func(i, j int) bool { return en[i].id < en[j].id })
		running := false
		if last != nil {
			for i, g := range en {
				if g == last {
					copy(en[1:i+1], en[:i])
					en[0] = g
					running = true
					break
				}
			}
		}
		idx := 0
		if len(en) > 1 {
			desc := make([]string, len(en))
			for i, g := range en {
				desc[i] = fmt.Sprintf("g%d:%s", g.id, g.op.kind)
			}
			idx = s.choose(Point{Kind: "thread", N: len(en), Running: running, Desc: desc})
			if idx < 0 || idx >= len(en) {
				panic(fmt.Sprintf("vsched: chooser returned %d of %d", idx, len(en)))
			}
		}
		g := en[idx]
		s.current = g
		last = g
		g.resume <- struct{}{}
		<-s.events // the goroutine parked again or finished
		if s.err != "" && !s.aborted {
			s.abort()
			return
		}
	}
}

// abort releases every parked goroutine in poison mode so that they unwind.
func (s *sched) abort() {
	s.aborted = true
	for {
		progressed := false
		for _, g := range s.gs {
			if !g.done && g.op != nil {
				g.poison = true
				s.current = g
				g.resume <- struct{}{}
				<-s.events
				progressed = true
			}
		}
		if !progressed {
			return
		}
	}
}

func chanPtr(ch any) uintptr { return reflect.ValueOf(ch).Pointer() }

// ---------------------------------------------------------------------------------------------
// Hooks used by the instrumented sources

// Go starts f as a controlled goroutine (a real goroutine without a controller).
func Go(f func()) {
	s := active
	if s == nil {
		go f()
		return
	}
	g := s.newGor()
	go s.runGor(g, f)
	// spawning is a scheduling point: the child may run before the parent continues
	s.park(&pendingOp{kind: "spawned", enabled: func() bool { return true }})
}

func Send[T any](ch chan<- T, v T) {
	if s := active; s != nil {
		if cap(ch) == 0 {
			panic("vsched: unbuffered channel send is not modelled")
		}
		p := chanPtr(ch)
		s.park(&pendingOp{kind: "send", obj: p, enabled: func() bool { return len(ch) < cap(ch) || s.closed[p] }})
	}
	ch <- v
}

func Recv[T any](ch <-chan T) T {
	v, _ := Recv2(ch)
	return v
}

func Recv2[T any](ch <-chan T) (T, bool) {
	if s := active; s != nil {
		p := chanPtr(ch)
		s.park(&pendingOp{kind: "recv", obj: p, enabled: func() bool { return len(ch) > 0 || s.closed[p] }})
	}
	v, ok := <-ch
	return v, ok
}

func Close[T any](ch chan<- T) {
	if s := active; s != nil {
		p := chanPtr(ch)
		s.park(&pendingOp{kind: "close", obj: p, enabled: func() bool { return true }})
		s.closed[p] = true
		s.keep = append(s.keep, ch)
	}
	close(ch)
}

// SelectRecvDefault models `select { case <-ch: A; default: B }`: a scheduling point, then it
// reports whether the receive case is taken (and performs the receive).
func SelectRecvDefault[T any](ch <-chan T) bool {
	if s := active; s != nil {
		p := chanPtr(ch)
		s.park(&pendingOp{kind: "select", obj: p, enabled: func() bool { return true }})
		if len(ch) > 0 || s.closed[p] {
			<-ch
			return true
		}
		return false
	}
	select {
	case <-ch:
		return true
	default:
		return false
	}
}

// Yield is a plain scheduling point.
func Yield(kind string) {
	if s := active; s != nil {
		s.park(&pendingOp{kind: kind, enabled: func() bool { return true }})
	}
}

// ---------------------------------------------------------------------------------------------
// sync shims

type WaitGroup struct {
	n    int
	real sync.WaitGroup
}

func (w *WaitGroup) Add(n int) {
	if s := active; s != nil {
		s.park(&pendingOp{kind: "wg.add", enabled: func() bool { return true }})
		w.n += n
		if w.n < 0 {
			panic("vsched: negative WaitGroup counter")
		}
		return
	}
	w.real.Add(n)
}

func (w *WaitGroup) Done() {
	if s := active; s != nil {
		s.park(&pendingOp{kind: "wg.done", enabled: func() bool { return true }})
		w.n--
		if w.n < 0 {
			panic("vsched: negative WaitGroup counter")
		}
		return
	}
	w.real.Done()
}

func (w *WaitGroup) Wait() {
	if s := active; s != nil {
		s.park(&pendingOp{kind: "wg.wait", enabled: func() bool { return w.n == 0 }})
		return
	}
	w.real.Wait()
}

type Mutex = sync.Mutex
type RWMutex = sync.RWMutex
type Once = sync.Once

// Pool is a deterministic LIFO pool shared by all goroutines.  Under a controller there is a
// scheduling point before and after Get and Put, and a poison check: an object handed out by Get
// must still be in the state it had at Put (nobody may write to it after giving it back).
type Pool struct {
	New func() any

	mu    sync.Mutex
	stack []any
	finger []string
	reg   bool
}

var allPools []*Pool
var poolsMu sync.Mutex

// ResetPools empties every pool (the harness calls it before each execution so that executions do
// not depend on what earlier executions left in the process-wide pools).
func ResetPools() { resetPools() }

func resetPools() {
	poolsMu.Lock()
	defer poolsMu.Unlock()
	for _, p := range allPools {
		p.stack, p.finger = nil, nil
	}
}

func (p *Pool) register() {
	if p.reg {
		return
	}
	poolsMu.Lock()
	if !p.reg {
		p.reg = true
		allPools = append(allPools, p)
	}
	poolsMu.Unlock()
}

// samePooledObject: pointer identity of two pooled objects.
func samePooledObject(a, b any) bool {
	va, vb := reflect.ValueOf(a), reflect.ValueOf(b)
	if va.Kind() != reflect.Ptr || vb.Kind() != reflect.Ptr {
		return false
	}
	return va.Pointer() == vb.Pointer()
}

// Fingerprint renders the observable state of a pooled object; the harness may replace it.
var Fingerprint = func(x any) string {
	if l, ok := x.(interface{ Len() int }); ok {
		return fmt.Sprintf("len=%d", l.Len())
	}
	return fmt.Sprintf("%+v", reflect.Indirect(reflect.ValueOf(x)).Interface())
}

func (p *Pool) Get() any {
	s := active
	if s != nil {
		s.park(&pendingOp{kind: "pool.get", enabled: func() bool { return true }})
	}
	p.mu.Lock()
	p.register()
	var x any
	if n := len(p.stack); n > 0 {
		x = p.stack[n-1]
		fp := p.finger[n-1]
		p.stack, p.finger = p.stack[:n-1], p.finger[:n-1]
		p.mu.Unlock()
		if s != nil {
			if now := Fingerprint(x); now != fp && s.err == "" {
				s.err = fmt.Sprintf("pool poison: object changed after it was returned to the pool (%s -> %s)", fp, now)
			}
		}
	} else {
		p.mu.Unlock()
		if p.New != nil {
			x = p.New()
		}
	}
	if s != nil {
		s.park(&pendingOp{kind: "pool.got", enabled: func() bool { return true }})
	}
	return x
}

func (p *Pool) Put(x any) {
	s := active
	if s != nil {
		s.park(&pendingOp{kind: "pool.put", enabled: func() bool { return true }})
	}
	p.mu.Lock()
	p.register()
	if s != nil && s.err == "" && x != nil {
		// the same object handed back twice: two later Gets would hand it to two users at once
		for _, y := range p.stack {
			if samePooledObject(x, y) {
				s.err = fmt.Sprintf("pool misuse: the same %T was returned to the pool twice (it is still in the pool)", x)
				break
			}
		}
	}
	p.stack = append(p.stack, x)
	fp := ""
	if s != nil {
		fp = Fingerprint(x)
	}
	p.finger = append(p.finger, fp)
	p.mu.Unlock()
	if s != nil {
		s.park(&pendingOp{kind: "pool.putdone", enabled: func() bool { return true }})
	}
}

// ---------------------------------------------------------------------------------------------
// map iteration order

// DetMaps makes MapKeys return the canonical (sorted) order when no controller is attached: the
// sequential checks set it so that every execution and every replay sees the same iteration order
// (which orders are possible at all is what the schedule-controlled checks enumerate).
var DetMaps bool

// MapKeys returns the keys of m.  Under a controller: in canonical (sorted) order permuted by a
// controller choice; otherwise in Go's native order (canonical order if DetMaps is set).
func MapKeys[K comparable, V any](m map[K]V) []K {
	keys := make([]K, 0, len(m))
	for k := range m {
		keys = append(keys, k)
	}
	s := active
	if len(keys) < 2 || (s == nil && !DetMaps) {
		return keys
	}
	strs := make([]string, len(keys))
	for i, k := range keys {
		strs[i] = fmt.Sprintf("%v", k)
	}
	idx := make([]int, len(keys))
	for i := range idx {
		idx[i] = i
	}
	sort.Slice(idx, func(a, b int) bool { return strs[idx[a]] < strs[idx[b]] })
	sorted := make([]K, len(keys))
	for i, j := range idx {
		sorted[i] = keys[j]
	}
	if s == nil {
		return sorted
	}
	n := len(sorted)
	opts := 0
	if n <= 4 {
		opts = 1
		for i := 2; i <= n; i++ {
			opts *= i
		}
	} else {
		opts = n + 1 // identity, reverse, rotations by 1..n-1
	}
	c := s.choose(Point{Kind: "maporder", N: opts})
	if c == 0 {
		return sorted
	}
	out := make([]K, 0, n)
	if n <= 4 {
		// c-th permutation (Lehmer code)
		rest := append([]K(nil), sorted...)
		f := opts
		for i := n; i >= 1; i-- {
			f /= i
			j := c / f
			c %= f
			out = append(out, rest[j])
			rest = append(rest[:j], rest[j+1:]...)
		}
		return out
	}
	if c == 1 {
		for i := n - 1; i >= 0; i-- {
			out = append(out, sorted[i])
		}
		return out
	}
	r := c - 1
	out = append(out, sorted[r:]...)
	out = append(out, sorted[:r]...)
	return out
}
